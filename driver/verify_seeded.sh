#!/bin/bash
# usage: verify_seeded.sh <srcdir containing patch.diff + demo_*_test.go> — confirms in a scratch worktree that
# the change compiles, passes the existing suite, and that the demo fails with it and passes without it.
src="$1"
export GOFLAGS=-mod=mod GOPROXY=off GOSUMDB=off GOTOOLCHAIN=local
wt=/tmp/seedverify-$$
git -C /repo worktree add -q --detach $wt HEAD || exit 2
cd $wt
demo=$(ls $src/demo_*_test.go | head -1)
name=$(grep -o 'func Test[A-Za-z0-9_]*' $demo | head -1 | sed 's/func //')
res=""
git apply $src/patch.diff || res="patch-does-not-apply"
if [ -z "$res" ]; then
  if go1.26.8 test -vet=off -count=1 ./... >/tmp/sv-suite.$$ 2>&1; then suite=pass; else suite=FAIL; fi
  cp $demo .
  if go1.26.8 test -vet=off -count=1 -run "^$name\$" . >/tmp/sv-with.$$ 2>&1; then with=pass; else with=fail; fi
  git checkout -q -- .
  if go1.26.8 test -vet=off -count=1 -run "^$name\$" . >/tmp/sv-without.$$ 2>&1; then without=pass; else without=fail; fi
  res="suite_with_change=$suite demo_with_change=$with demo_without_change=$without test=$name"
fi
cd /; git -C /repo worktree remove --force $wt
rm -f /tmp/sv-*.$$
echo "$res"
