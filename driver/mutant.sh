#!/bin/sh
# usage: mutant.sh <patch.diff> <prop> [<prop>...]   — apply a seeded change to /repo, run quick checks, revert.
patch="$1"; shift
git -C /repo diff --quiet || { echo "repo dirty"; exit 2; }
git -C /repo apply "$patch" || { echo "patch does not apply"; exit 2; }
for p in "$@"; do
  ./check "$p" --tier quick ${RUNS:+--runs $RUNS} 2>&1 | grep -E "^(VIOLATION|KNOWN|TROUBLE|$p \[)|^C[0-9]+/" | cut -c1-400
done
git -C /repo checkout -- . && git -C /repo status --short | head -3
