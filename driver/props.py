"""Property -> scenario plan table for the DetSim driver."""

COMPONENTS = {
    'real': ['bloomsearch engine (ingest actor, flush worker, query pipeline, merge) from /repo working tree, instrumented copy',
             'MemoryMetaStore', 'FileSystemDataStore (over simos)', 'encoding/json, gjson, bits-and-blooms, klauspost/compress',
             'Go runtime scheduler on one P (select order, map order, rand, mutex blocking patched via overlay)'],
    'simulated': ['DataStore (SimDisk)', 'MetaStore (SimMeta) and gate wrappers around the real MetaStores', 'package os under FileSystemDataStore (simos)',
                  'clock/timers/deadlines (testing/synctest fake clock)', 'contexts with late AfterFunc (SimCtx)', 'done-channel receivers', 'callers (client actors)'],
}

LIFE_ASSUME = ['one P, cooperative scheduling: interleavings are explored at synchronisation operations, not at plain memory accesses',
               'SimDisk/SimMeta model the DataStore/MetaStore contracts of data_store.go / meta_store.go (atomic Update, failed call = no effect)']

PROPS = {
    'C05': {
        'level': 'exploration',
        'quick': [('life:general', 8000)],
        'thorough': [('life:general', 400000)],
        'rule': 'seeded S-life runs (1-4 clients x 3-8 ops: IngestRows/Flush/Start/Stop/Query/Merge, store faults, coarse and fine schedules); '
                'non-trivial = an operation overlapped Stop or a store fault fired; distinct = distinct scheduler decision sequences',
        'expect_probes': ['life.op-overlaps-stop', 'life.stop-deadline-error', 'life.late-or-never-start'],
        'assumptions': LIFE_ASSUME,
    },
    'C06': {
        'level': 'exploration',
        'quick': [('life:general', 8000)],
        'thorough': [('life:general', 400000)],
        'rule': 'seeded S-life runs with store faults (err/short-write/late-err/stall at CreateFile, Write, Close, Abort, Update, TombstoneFile); oracle compares done-channel '
                'answers with a census of the stores, a fresh engine over the same stores and mid-run queries; non-trivial = a store fault fired; distinct = distinct decision sequences',
        'assumptions': LIFE_ASSUME,
    },
    'C07': {
        'level': 'exploration',
        'quick': [('life:general', 8000)],
        'thorough': [('life:general', 400000)],
        'rule': 'seeded S-life runs; non-trivial = some nil acknowledgement or nil Flush had an earlier-accepted non-empty batch to be ordered against; distinct = distinct decision sequences',
        'assumptions': LIFE_ASSUME,
    },
    'C08': {
        'level': 'exploration',
        'quick': [('life:general', 8000)],
        'thorough': [('life:general', 400000)],
        'rule': 'seeded S-life runs with Stop under background/deadline/SimCtx(late AfterFunc)/cancellable contexts, wedged and ctx-ignoring stores, abandoned done channels; '
                'non-trivial = an operation overlapped Stop or Stop returned a deadline error; distinct = distinct decision sequences',
        'expect_probes': ['life.op-overlaps-stop', 'life.stop-deadline-error'],
        'assumptions': LIFE_ASSUME,
    },
    'C09': {
        'level': 'exploration',
        'quick': [('life:backpressure', 3000)],
        'thorough': [('life:backpressure', 150000)],
        'rule': 'seeded backpressure runs: 1-6 producers x 10-40 one-row batches with per-call timeouts against a store stalled forever at a tape-chosen call; '
                'non-trivial = the stall fired and some IngestRows blocked or timed out; distinct = distinct decision sequences',
        'assumptions': LIFE_ASSUME,
    },
    'C10': {
        'level': 'exploration',
        'quick': [('life:timed', 6000)],
        'thorough': [('life:timed', 300000)],
        'rule': 'seeded runs without Flush/Stop, responsive stores, fair schedule (clock advances only when nothing is runnable); non-trivial = a flush was triggered by a limit or by time; distinct = distinct decision sequences',
        'assumptions': LIFE_ASSUME,
    },
}
