"""Property -> scenario plan table for the DetSim driver."""

COMPONENTS = {
    'real': ['bloomsearch engine (ingest actor, flush worker, query pipeline, merge) from /repo working tree, instrumented copy',
             'MemoryMetaStore', 'FileSystemDataStore (over simos)', 'encoding/json, gjson, bits-and-blooms, klauspost/compress',
             'Go runtime scheduler on one P (select order, map seeds and iteration order, rand and math/rand streams, mutex blocking and starvation switch, time-slice preemption patched via overlay)'],
    'simulated': ['DataStore (SimDisk)', 'MetaStore (SimMeta) and gate wrappers around the real MetaStores', 'package os under FileSystemDataStore (simos)',
                  'clock/timers/deadlines (testing/synctest fake clock)', 'contexts with late AfterFunc (SimCtx)', 'done-channel receivers', 'callers (client actors)'],
}

LIFE_ASSUME = ['one P, cooperative scheduling: interleavings are explored at synchronisation operations, not at plain memory accesses',
               'SimDisk/SimMeta model the DataStore/MetaStore contracts of data_store.go / meta_store.go (atomic Update, failed call = no effect)']

PROPS = {
    'C05': {
        'level': 'exploration',
        'quick': [('life:general', 8000)],
        'thorough': [('life:general', 400000)],
        'rule': 'seeded S-life runs (1-4 clients x 3-8 ops: IngestRows/Flush/Start/Stop/Query/Merge, store faults, coarse and fine schedules); '
                'non-trivial = an operation overlapped Stop or a store fault fired; distinct = distinct scheduler decision sequences',
        'expect_probes': ['life.op-overlaps-stop', 'life.stop-deadline-error', 'life.late-or-never-start'],
        'assumptions': LIFE_ASSUME,
    },
    'C06': {
        'level': 'exploration',
        'quick': [('life:general', 8000)],
        'thorough': [('life:general', 400000)],
        'rule': 'seeded S-life runs with store faults (err/short-write/late-err/stall at CreateFile, Write, Close, Abort, Update, TombstoneFile); oracle compares done-channel '
                'answers with a census of the stores, a fresh engine over the same stores and mid-run queries; non-trivial = a store fault fired; distinct = distinct decision sequences',
        'assumptions': LIFE_ASSUME,
    },
    'C07': {
        'level': 'exploration',
        'quick': [('life:general', 8000)],
        'thorough': [('life:general', 400000)],
        'rule': 'seeded S-life runs; non-trivial = some nil acknowledgement or nil Flush had an earlier-accepted non-empty batch to be ordered against; distinct = distinct decision sequences',
        'assumptions': LIFE_ASSUME,
    },
    'C08': {
        'level': 'exploration',
        'quick': [('life:general', 8000)],
        'thorough': [('life:general', 400000)],
        'rule': 'seeded S-life runs with Stop under background/deadline/SimCtx(late AfterFunc)/cancellable contexts, wedged and ctx-ignoring stores, abandoned done channels; '
                'non-trivial = an operation overlapped Stop or Stop returned a deadline error; distinct = distinct decision sequences',
        'expect_probes': ['life.op-overlaps-stop', 'life.stop-deadline-error'],
        'assumptions': LIFE_ASSUME,
    },
    'C09': {
        'level': 'exploration',
        'quick': [('life:backpressure', 3000)],
        'thorough': [('life:backpressure', 150000)],
        'rule': 'seeded backpressure runs: 1-6 producers x 10-40 one-row batches with per-call timeouts against a store stalled forever at a tape-chosen call; '
                'non-trivial = the stall fired and some IngestRows blocked or timed out; distinct = distinct decision sequences',
        'assumptions': LIFE_ASSUME,
    },
    'C10': {
        'level': 'exploration',
        'quick': [('life:timed', 6000)],
        'thorough': [('life:timed', 300000)],
        'rule': 'seeded runs without Flush/Stop, responsive stores, fair schedule (clock advances only when nothing is runnable); non-trivial = a flush was triggered by a limit or by time; distinct = distinct decision sequences',
        'assumptions': LIFE_ASSUME,
    },
    'C01': {
        'level': 'exploration',
        'quick': [('content:general', 1600)],
        'thorough': [('content:general', 60000)],
        'rule': 'seeded S-content runs: a store history (1-3 engine configs: compression, fp rate, limits, partition function, minmax keys; flush by every trigger; merges; optional external file '
                'without filters) then 8-40 generated queries (bloom/regex/prefilter trees, 70% drawn from stored entries) on the real concurrent pipeline; oracle = independent Spec over '
                'encoding/json token stream; non-trivial = more than one stored block; distinct = distinct decision sequences',
        'assumptions': ['Spec implements the README search semantics; regex trees with nil-condition children inside And/Or and unknown regex node types are not generated (no documented meaning)'],
    },
    'C02': {
        'level': 'exploration',
        'quick': [('content:general', 1600)],
        'thorough': [('content:general', 60000)],
        'rule': 'same runs as C01; oracle: every returned row stored, matching, at most once; exact without prefilter; whole-block granular with L<=S<=U with prefilter; non-trivial = more than one stored block',
        'assumptions': ['Spec implements the README search semantics; regex trees with nil-condition children inside And/Or and unknown regex node types are not generated (no documented meaning)'],
    },
    'C03': {
        'level': 'exploration',
        'quick': [('content:general', 1600)],
        'thorough': [('content:general', 60000)],
        'rule': 'same runs as C01 with 1-3 concurrent query clients; oracle: returned rows equal the JSON round trip of the ingested row; deep copies taken at delivery are compared after all scans and after scribbling over other rows; non-trivial = some query returned rows',
        'assumptions': ['Spec implements the README search semantics; regex trees with nil-condition children inside And/Or and unknown regex node types are not generated (no documented meaning)'],
    },
    'C04': {
        'level': 'exploration',
        'quick': [('content:general', 1600)],
        'thorough': [('content:general', 60000)],
        'rule': 'same runs as C01 with rows carrying every Go numeric kind/magnitude under minmax keys; oracle: exact big-number evaluation of each condition on the row value vs EvaluateDataBlockMetadata on the block and vs Query; non-trivial = a prefilter query was evaluated',
        'assumptions': ['Spec implements the README search semantics; regex trees with nil-condition children inside And/Or and unknown regex node types are not generated (no documented meaning)'],
    },
    'C17': {
        'level': 'exploration',
        'quick': [('content:general', 1600)],
        'thorough': [('content:general', 60000)],
        'rule': 'every file published during S-content histories (flush and merge output, including files later merged away) is parsed and compared with its bytes and with the ledger; non-trivial = more than one stored block',
        'assumptions': ['Spec implements the README search semantics; regex trees with nil-condition children inside And/Or and unknown regex node types are not generated (no documented meaning)'],
    },
    'C18': {
        'level': 'exploration',
        'quick': [('content:general', 1600)],
        'thorough': [('content:general', 60000)],
        'rule': 'every file published during S-content histories: Spec entries of each row tested against block and file filters, minmax keys/ranges and partition ids against the ledger; non-trivial = more than one stored block',
        'assumptions': ['Spec implements the README search semantics; regex trees with nil-condition children inside And/Or and unknown regex node types are not generated (no documented meaning)'],
    },
    'C23': {
        'level': 'exploration',
        'quick': [('content:general', 1600)],
        'thorough': [('content:general', 60000)],
        'rule': 'Stats of every cleanly completed S-content query checked against the census; non-trivial = the query evaluated at least one block',
        'assumptions': ['Spec implements the README search semantics; regex trees with nil-condition children inside And/Or and unknown regex node types are not generated (no documented meaning)'],
    },
    'C24': {
        'level': 'exploration',
        'quick': [('content:general', 1600)],
        'thorough': [('content:general', 60000)],
        'rule': 'attributed SimDisk call log of every S-content query checked against file/block filters, prefilter and declared extents; non-trivial = the query made store calls',
        'assumptions': ['Spec implements the README search semantics; regex trees with nil-condition children inside And/Or and unknown regex node types are not generated (no documented meaning)'],
    },
}

CURSOR_ASSUME = ['one P, cooperative scheduling at synchronisation operations', 'SimDisk handles follow the DataStore handle contract; reads are held open at gates so concurrency gauges saturate']
for _pid, _rule in [
    ('C20', 'seeded S-cursor runs: 1-5 concurrent queries over a pre-built multi-file store with prompt/slow/stalled/closing/abandoning consumers, Close from a second goroutine, context cancellation and deadlines at any step, OpenFile/Read/iterator faults, never-started/running/stopped engines; non-trivial = some query reached Next()==false; distinct = distinct decision sequences'),
    ('C21', 'same runs; per-handle and per-iterator monitors in SimDisk/SimMeta, spawn-path liveness of query goroutines and semaphore occupancy checked at the quiescent point after each terminal call; non-trivial = a started query reached its terminal state'),
    ('C22', 'same runs with MaxQueryConcurrency in {1,2,3,8}; gauge of in-progress query reads checked at every step, liveness of non-stalled queries checked in a fair fault-free phase; non-trivial = the gauge reached MaxQueryConcurrency'),
]:
    PROPS[_pid] = {'level': 'exploration', 'quick': [('cursor:general', 5000)], 'thorough': [('cursor:general', 250000)], 'rule': _rule, 'assumptions': CURSOR_ASSUME}

# C23/C24 are also checked on every S-cursor query (faults, cancellation, stalled consumers, big blocks).
for _pid in ('C23', 'C24'):
    PROPS[_pid]['quick'] = [('content:general', 1000), ('cursor:general', 2500)]
    PROPS[_pid]['thorough'] = [('content:general', 40000), ('cursor:general', 150000)]
    PROPS[_pid]['rule'] += '; additionally every finished S-cursor query (store faults, cancellation, Close, stalled consumers, blocks of up to 300 rows)'

# C03 is also checked on every row S-cursor delivers: concurrent scans with slow and stalled consumers under
# store faults (failed, short and silently corrupted reads), where pooled scan buffers are recycled on error paths.
PROPS['C03']['quick'] = [('content:general', 1200), ('cursor:general', 2000)]
PROPS['C03']['thorough'] = [('content:general', 40000), ('cursor:general', 150000)]
PROPS['C03']['rule'] += '; additionally every row delivered by an S-cursor query is compared with the JSON round trip of the ingested row at delivery and again at the end of the run (store faults incl. failed/short/corrupted reads, slow and stalled consumers)'

MERGE_ASSUME = ['one P, cooperative scheduling at synchronisation operations', 'SimDisk/SimMeta follow the DataStore/MetaStore contracts (atomic Update; a failed call has no effect; late-err Close publishes then reports failure)']
PROPS['C11'] = {'level': 'exploration', 'quick': [('merge:content', 1500)], 'thorough': [('merge:content', 60000)],
    'rule': 'seeded S-merge runs: populations of small files flushed under 1-3 differing engine configs (compression, fp rate, partition function, minmax key sets, limits), then 1-3 Merge rounds under a '
            'drawn merge config; census and a 10-30 query panel before and after every committed merge; non-trivial = a merge committed; distinct = distinct decision sequences',
    'assumptions': MERGE_ASSUME}
PROPS['C12'] = dict(PROPS['C11'], rule='same runs as C11; oracle from the Update call and the before/after census: combined blocks within MaxRowGroupRows/Bytes and from one partition + one minmax key set, '
            'sources per Merge <= MaxFilesToMergePerOperation, source bytes per output <= MaxFileSize; non-trivial = a merge committed')
PROPS['C13'] = {'level': 'fault_enumeration', 'exhaustive': True, 'env': {'SIM_ENUM': '1'},
    'quick': [('merge:faults', 24)], 'thorough': [('merge:faults', 1500)],
    'rule': 'per sampled merge history (seed): one fault-free reference execution, then one re-execution per store call position of the merge (iterator start/yield, CreateFile, OpenFile, Read, Write, Close, '
            'Abort, Update, TombstoneFile, handle Close) with an injected error there, plus short-write/short-read/late-error variants, with a second Merge call racing the first; '
            'exhaustive per history over single-fault positions (capped at 600 positions); non-trivial = the fault fired; distinct = distinct decision sequences',
    'assumptions': MERGE_ASSUME}
PROPS['C14'] = {'level': 'exploration', 'quick': [('merge:concurrent', 3000)], 'thorough': [('merge:concurrent', 150000)],
    'rule': 'seeded runs: 1-2 writers ingesting/flushing, a merger calling Merge repeatedly, 1-3 readers issuing match-all queries whose MetaStore iteration, opens and reads are gated, '
            'SimMeta or the real MemoryMetaStore, eager or lazy tombstones, coarse and fine schedules; non-trivial = a query finished with nil error; distinct = distinct decision sequences',
    'assumptions': MERGE_ASSUME}

FS_ASSUME = ['simos models POSIX semantics relevant to the store: atomic rename, open handles survive unlink, data durable only after fsync(file), directory entries durable only after fsync(dir); '
             'power loss keeps the durable view plus an order-preserving prefix or arbitrary subset of un-fsynced directory operations and none/all/prefix/zero-filled un-fsynced file data']
PROPS['C15'] = {'level': 'fault_enumeration', 'exhaustive': False,
    'quick': [('fs:crash', 400)], 'thorough': [('fs:crash', 20000)],
    'rule': 'per sampled engine history over the real FileSystemDataStore (both stores) on simos (ingest, flush, failed flush under injected os errors, merge): at EVERY quiescent point at which the '
            'file system changed (each simos call is its own scheduler step) the process-crash image is recovered with a fresh store+engine, plus 2 sampled power-loss images; '
            'crash points are enumerated exhaustively per history, power-loss images are sampled; non-trivial = more than 3 images recovered; distinct = distinct decision sequences',
    'assumptions': FS_ASSUME}
PROPS['C16'] = {'level': 'exploration', 'quick': [('fs:spec', 4000)], 'thorough': [('fs:spec', 200000)],
    'rule': 'seeded call sequences on the real FileSystemDataStore over simos: 1-4 concurrent writers x 2-8 scripts (CreateFile with forced name collisions against committed files, reservations and '
            'orphaned .tmp files; chunked Write of random / valid-bloom / empty payloads; Close, Abort, Abort after Close, double Close, Close after Abort, abandoned writers; TombstoneFile; OpenFile), '
            'os-call faults in a third of the runs; reference model compared with the directory and the directory scan at every quiescent point; non-trivial = more than one file created',
    'assumptions': FS_ASSUME}
PROPS['C14']['quick'] = [('merge:concurrent', 2500), ('fs:conc', 800)]
PROPS['C14']['thorough'] = [('merge:concurrent', 120000), ('fs:conc', 40000)]
PROPS['C14']['rule'] += '; plus the same workload with the real FileSystemDataStore as DataStore and MetaStore over simos (directory scan, opens and reads gated)'

PROPS['C19'] = {'level': 'exploration', 'quick': [('corrupt:general', 6000)], 'thorough': [('corrupt:general', 400000)],
    'rule': 'seeded corruption runs on engine-written files (1-4 blocks, every compression): byte-level mutations (bit flips, bursts, truncation inside row data / filter region / file filter section / JSON / tail, '
            'extension, splice of another file, foreign tail) with metadata held by the MetaStore, applied before a query, while the query runs (between store calls), or before a merge; and CRC-consistent '
            're-framing of footer fields (region offset/size, block row-data offset/size, filter offset/size, uncompressed size, rows, file filter size) to boundary and arbitrary values up to +-2^63 with metadata '
            'read back from the file through the real FileSystemDataStore; read helpers run over a bounds-recording reader; non-trivial = the image differs from the original; distinct = distinct decision sequences',
    'assumptions': ['allocation beyond the file size is observed through the size of the read buffers handed to the store (a fatal out-of-memory kills the worker and is reported as harness trouble, exit 2)']}

PROPS['C27'] = {'level': 'exploration',
    'quick': [('life:general', 2500), ('life:logger', 300), ('content:general', 400), ('cursor:general', 800), ('merge:faults', 400), ('fs:crash', 60), ('corrupt:general', 1500)],
    'thorough': [('life:general', 120000), ('life:logger', 3000), ('content:general', 15000), ('cursor:general', 40000), ('merge:faults', 20000), ('fs:crash', 3000), ('corrupt:general', 80000)],
    'rule': 'file descriptors 1 and 2 of every worker are redirected to a capture file; after every simulated run of every scenario (lifecycle with store failures and Stop deadlines, content with '
            'filter-less external files, cursor faults, merge faults, file-system crashes, corrupt files) the capture file must not have grown; life:logger is the control class with a configured Logger '
            '(probe c27.logger-bytes shows the same paths do log); non-trivial = the run went through a failure, deadline, corruption or missing-filter path; distinct = workload+decision digests',
    'expect_probes': ['c27.logger-bytes'],
    'assumptions': ['output is observed at the file-descriptor level (fd 1 and fd 2), which covers fmt.Print*, log, slog default handlers and panics alike']}

# C06: exploration (pairs of faults, stalls, schedules) plus per-history single-fault enumeration.
PROPS['C06']['level'] = 'fault_enumeration'
PROPS['C06']['quick'] = [('life:general', 5000), ('life:enum', 60, {'SIM_ENUM': '1'})]
PROPS['C06']['thorough'] = [('life:general', 250000), ('life:enum', 4000, {'SIM_ENUM': '1'})]
PROPS['C06']['rule'] += ('; plus, per sampled history (life:enum), a fault-free reference execution and one re-execution per store call position of the whole history (CreateFile, Write, Close, Abort, '
                         'Update, TombstoneFile, ...) with an injected error there (short-write / late-error variants on Write and Close): exhaustive over single-fault positions per history')

# Quick-tier sizes tuned to roughly 30-60 s of simulation per check on 16 cores (plus ~25 s build).
PROPS['C09']['quick'] = [('life:backpressure', 6000)]
PROPS['C10']['quick'] = [('life:timed', 9000)]
PROPS['C11']['quick'] = [('merge:content', 3000)]
PROPS['C12']['quick'] = [('merge:content', 3000)]
PROPS['C13']['quick'] = [('merge:faults', 160)]
PROPS['C14']['quick'] = [('merge:concurrent', 3000), ('fs:conc', 1500)]
PROPS['C15']['quick'] = [('fs:crash', 1000)]
PROPS['C16']['quick'] = [('fs:spec', 40000)]
PROPS['C19']['quick'] = [('corrupt:general', 8000)]

# C06 also over the real FileSystemDataStore (as DataStore, with an atomic MetaStore) on simos.
PROPS['C06']['quick'] = [('life:general', 4000), ('life:fsds', 1500), ('life:enum', 60, {'SIM_ENUM': '1'})]
PROPS['C06']['thorough'] = [('life:general', 200000), ('life:fsds', 60000), ('life:enum', 4000, {'SIM_ENUM': '1'})]
PROPS['C06']['rule'] += '; life:fsds runs the same workload with the real FileSystemDataStore over simos as DataStore (os-call faults) next to an atomic MetaStore'

# C17/C18 also over S-merge (merge:content truth-checks every file a merge publishes; its row-group
# limits sit near the source block sizes, so one partition regularly yields several recombined blocks
# in one output file — the layout w8-C17 needs, which S-content reached in 1 of 1 600 runs).
for _p in ('C17', 'C18'):
    PROPS[_p]['quick'] = [('content:general', 1600), ('merge:content', 2000)]
    PROPS[_p]['thorough'] = [('content:general', 60000), ('merge:content', 60000)]
    PROPS[_p]['rule'] += '; plus every file published during S-merge histories (merge:content: fault-free merge rounds with row-group limits near the source block sizes)'
