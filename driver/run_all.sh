#!/bin/bash
# usage: run_all.sh quick|thorough [ids...] — runs the registered checks one after another on the current /repo tree.
tier=${1:-quick}; shift
ids="$@"
cd "$(dirname "$0")/.."
[ -z "$ids" ] && ids=$(python3 -c "import json; print(' '.join(c['property_id'] for c in json.load(open('MANIFEST.json'))['checks']))")
for id in $ids; do
  start=$(date +%s)
  ./check $id --tier $tier > runall-$id.log 2>&1; rc=$?
  echo "$id rc=$rc $(( $(date +%s) - start ))s $(grep -E '^(VIOLATION|TROUBLE|INCONCLUSIVE)' runall-$id.log | head -3 | tr '\n' ' ') $(tail -1 runall-$id.log | cut -c1-160)"
  [ -n "$VERIF_DEBUG" ] && grep -E '^DEBUG' runall-$id.log | cut -c1-220
  if [ "$tier" = thorough ]; then mkdir -p evidence-thorough; cp evidence/$id.json evidence-thorough/$id.json; fi
done
