#!/usr/bin/env python3
import json,sys
r=json.load(open(sys.argv[1]))
print(r['property'],r['kind'],'|',r['message'])
print('minimised',r.get('minimised'),'runs',r.get('shrink_runs'),{k:(v and len(v)) for k,v in r['tapes'].items()})
print(json.dumps(r.get('workload')))
for t in r.get('trace') or []:
    if 'clock +' in t and '--clock' not in sys.argv: continue
    print(t)
