#!/usr/bin/env python3
"""DetSim check driver (DESIGN.md §8).

  check.py <property-id> [--tier quick|thorough] [--replay FILE] [--runs N] [--keep-scratch]
  check.py setup
  check.py selftest-determinism [--scenario S] [--seeds N] [--procs P]

Exit codes: 0 property held on everything explored (KNOWN-FINDING lines may be printed);
1 with "VIOLATION property=<id> replay=<path>"; 2 harness trouble (never reported as a violation).
"""
import argparse, glob, hashlib, json, os, shutil, signal, subprocess, sys, tempfile, time

VERIF = os.path.dirname(os.path.dirname(os.path.abspath(__file__)))
REPO = os.environ.get('VERIF_REPO', '/repo')
BUILD = os.path.join(VERIF, '.build')
GO = os.environ.get('VERIF_GO', 'go1.26.8')
NPROC = int(os.environ.get('VERIF_PROCS', '16'))
SCRATCH_PARENT = os.environ.get('VERIF_SCRATCH', '/var/tmp')

sys.path.insert(0, os.path.dirname(os.path.abspath(__file__)))
from props import PROPS, COMPONENTS  # noqa: E402


def goenv():
    e = dict(os.environ)
    e.update(GOFLAGS='-mod=mod', GOPROXY='off', GOSUMDB='off', GOTOOLCHAIN='local', CGO_ENABLED='0')
    return e


def trouble(msg):
    print(f'TROUBLE: {msg}', flush=True)
    sys.exit(2)


def run(cmd, cwd=None, env=None, timeout=None):
    p = subprocess.run(cmd, cwd=cwd, env=env, stdout=subprocess.PIPE, stderr=subprocess.STDOUT, timeout=timeout)
    return p.returncode, p.stdout.decode(errors='replace')


def setup():
    os.makedirs(BUILD, exist_ok=True)
    rc, out = run([sys.executable, os.path.join(VERIF, 'rtoverlay', 'gen_overlay.py'), os.path.join(BUILD, 'rtoverlay')])
    if rc != 0:
        trouble('overlay generation failed:\n' + out)
    rc, out = run([GO, 'build', '-o', os.path.join(BUILD, 'instr'), '.'], cwd=os.path.join(VERIF, 'instr'), env=goenv())
    if rc != 0:
        trouble('instrumenter build failed:\n' + out)


def ensure_setup():
    if not (os.path.exists(os.path.join(BUILD, 'instr')) and os.path.exists(os.path.join(BUILD, 'rtoverlay', 'overlay.json'))):
        setup()


def repo_tree_hash():
    h = hashlib.sha256()
    for p in sorted(glob.glob(os.path.join(REPO, '*.go'))):
        if p.endswith('_test.go'):
            continue
        h.update(os.path.basename(p).encode())
        h.update(open(p, 'rb').read())
    return h.hexdigest()[:16]


class Build:
    """A scratch copy of /repo's working tree, instrumented and compiled with the harness."""

    def __init__(self):
        ensure_setup()
        self.dir = tempfile.mkdtemp(prefix='verif-', dir=SCRATCH_PARENT)
        self.bin = os.path.join(self.dir, 'sim.test')
        repo = os.path.join(self.dir, 'repo')
        os.makedirs(repo)
        n = 0
        for p in glob.glob(os.path.join(REPO, '*.go')):
            if not p.endswith('_test.go'):
                shutil.copy(p, repo)
                n += 1
        for f in ('go.mod', 'go.sum'):
            shutil.copy(os.path.join(REPO, f), repo)
        rc, out = run([os.path.join(BUILD, 'instr'), repo])
        if rc != 0:
            self.cleanup()
            trouble('instrumenter failed on the working tree:\n' + out)
        self.instr_note = out.strip()
        gomod = open(os.path.join(REPO, 'go.mod')).read()
        reqs = [l.strip() for l in gomod.splitlines() if l.strip().startswith('github.com/') and 'testify' not in l and '// indirect' not in l]
        with open(os.path.join(self.dir, 'go.mod'), 'w') as f:
            f.write('module verifsim\n\ngo 1.26.0\n\nrequire (\n\tgithub.com/danthegoodman1/bloomsearch v0.0.0\n')
            for r in reqs:
                f.write('\t' + r + '\n')
            f.write(')\n\nreplace github.com/danthegoodman1/bloomsearch => ' + repo + '\n')
        shutil.copy(os.path.join(REPO, 'go.sum'), os.path.join(self.dir, 'go.sum'))
        t0 = time.time()
        rc, out = run([GO, 'test', '-c', '-modfile=' + os.path.join(self.dir, 'go.mod'),
                       '-overlay=' + os.path.join(BUILD, 'rtoverlay', 'overlay.json'), '-o', self.bin, './harness'],
                      cwd=os.path.join(VERIF, 'sim'), env=goenv(), timeout=1800)
        self.build_s = time.time() - t0
        if rc != 0 or not os.path.exists(self.bin):
            self.cleanup()
            trouble('simulation binary did not build from the working tree (exit 2, not a violation):\n' + out[-4000:])

    def cleanup(self):
        shutil.rmtree(self.dir, ignore_errors=True)


class Worker:
    def __init__(self, build, idx, env_extra):
        self.build = build
        self.idx = idx
        self.out = os.path.join(build.dir, f'out-{idx}.jsonl')
        self.cap = os.path.join(build.dir, f'cap-{idx}.txt')
        self.env_extra = env_extra
        self.proc = None
        self.pos = 0
        self.last_progress = time.time()
        self.resume = None
        self.next_seed, self.remaining = 0, 0

    def start(self, extra):
        env = dict(os.environ)
        env.update(GODEBUG='asyncpreemptoff=1', SIM_OUT=self.out, SIM_CAPTURE=self.cap)
        env.update(self.env_extra)
        env.update(extra)
        try:
            self.proc_start = int(str(env.get('SIM_SEEDS', '')).split(':')[0])
        except ValueError:
            self.proc_start = None
        self.proc = subprocess.Popen([self.build.bin, '-test.run', 'TestSim', '-test.timeout', '0'], env=env,
                                     stdout=subprocess.DEVNULL, stderr=subprocess.DEVNULL, cwd=self.build.dir)
        self.last_progress = time.time()

    def account(self, r):
        """Tracks which seed the next process has to start from (enumeration emits many results per seed)."""
        if 'seed' not in r:
            return
        if r.get('last', True):
            done = r['seed'] - self.next_seed + 1
            self.remaining -= done
            self.next_seed = r['seed'] + 1
            self.resume = None
        else:
            self.resume = f"{r.get('enum_pos', 0)}:{r.get('enum_variant', 0)}"

    def read_new(self):
        res = []
        try:
            with open(self.out, 'rb') as f:
                f.seek(self.pos)
                data = f.read()
        except FileNotFoundError:
            return res
        if not data:
            return res
        end = data.rfind(b'\n')
        if end < 0:
            return res
        for line in data[:end].split(b'\n'):
            if line.strip():
                try:
                    res.append(json.loads(line))
                except Exception:
                    res.append({'error': 'unparsable worker output: ' + line[:200].decode(errors='replace')})
        self.pos += end + 1
        if res:
            self.last_progress = time.time()
        return res


def run_seeds(build, scenario, start, count, nproc=NPROC, env_extra=None, stall_timeout=300, wall_cap=None, on_result=None):
    """Runs seeds start..start+count-1 of a scenario sharded over worker processes.
    Returns (results, trouble_message|None)."""
    env_extra = dict(env_extra or {})
    env_extra['SIM_SCENARIO'] = scenario
    chunks = []
    per = max(1, (count + nproc - 1) // nproc)
    s = start
    while s < start + count:
        c = min(per, start + count - s)
        chunks.append([s, c])
        s += c
    workers = []
    for i, (s, c) in enumerate(chunks):
        w = Worker(build, f'{scenario.replace(":", "_")}-{start}-{i}', env_extra)
        w.next_seed, w.remaining = s, c
        w.start({'SIM_SEEDS': f'{w.next_seed}:{w.remaining}'})
        workers.append(w)
    results = []
    t0 = time.time()
    problem = None
    crashes = CRASHES
    active = list(workers)
    while active:
        time.sleep(0.05)
        for w in list(active):
            new = w.read_new()
            for r in new:
                w.account(r)
                r['_proc_start'] = w.proc_start
                results.append(r)
                if on_result:
                    on_result(r)
            rc = w.proc.poll()
            if rc is not None:
                for r in w.read_new():
                    w.account(r)
                    r['_proc_start'] = w.proc_start
                    results.append(r)
                if rc == 3 and w.remaining > 0:
                    extra = {'SIM_SEEDS': f'{w.next_seed}:{w.remaining}'}  # dirty run: fresh process for the rest
                    if w.resume is not None:
                        extra['SIM_ENUM_RESUME'] = w.resume
                    w.start(extra)
                    continue
                if rc not in (0, 3):
                    tail = ''
                    try:
                        tail = open(w.cap, 'rb').read()[-6000:].decode(errors='replace')
                    except Exception:
                        pass
                    # The process died inside seed w.next_seed: remember it (it is re-run alone
                    # afterwards to tell a library crash from harness trouble) and go on.
                    crashes.append({'scenario': scenario, 'seed': w.next_seed, 'rc': rc, 'tail': tail, 'env': dict(env_extra)})
                    w.next_seed += 1
                    w.remaining -= 1
                    w.resume = None
                    if w.remaining > 0 and len(crashes) < 20:
                        w.start({'SIM_SEEDS': f'{w.next_seed}:{w.remaining}'})
                        continue
                active.remove(w)
                continue
            if time.time() - w.last_progress > stall_timeout:
                w.proc.kill()
                w.proc.wait()
                if getattr(w, 'stalled_at', None) != w.next_seed and w.remaining > 0:
                    # A loaded machine can starve one worker; give the same seed one more chance
                    # in a fresh process before calling it trouble.
                    w.stalled_at = w.next_seed
                    extra = {'SIM_SEEDS': f'{w.next_seed}:{w.remaining}'}
                    if w.resume is not None:
                        extra['SIM_ENUM_RESUME'] = w.resume
                    w.start(extra)
                    continue
                problem = f'watchdog: worker for {scenario} made no progress for {stall_timeout}s, twice, at seed {w.next_seed}'
                active.remove(w)
            elif wall_cap and time.time() - t0 > wall_cap:
                w.proc.kill()
                active.remove(w)
    return results, problem


CRASHES = []  # worker processes that died inside a seed (filled by run_seeds)


def library_crash(tail):
    return ('github.com/danthegoodman1/bloomsearch.' in tail or 'out of memory' in tail or 'cannot allocate memory' in tail) and \
           ('panic' in tail or 'fatal error' in tail)


def confirm_crash(build, prop, c):
    """Re-runs the seed alone in a fresh process; a repeatable library crash becomes a replay file."""
    env = dict(c['env'])
    env.update({'SIM_SCENARIO': c['scenario'], 'SIM_SEEDS': f'{c["seed"]}:1'})
    w = Worker(build, 'crash-%d' % c['seed'], env)
    w.start({})
    try:
        rc = w.proc.wait(timeout=300)
    except subprocess.TimeoutExpired:
        w.proc.kill()
        return None
    if rc in (0, 3):
        return None
    try:
        tail = open(w.cap, 'rb').read()[-6000:].decode(errors='replace')
    except Exception:
        tail = ''
    if not library_crash(tail):
        return None
    os.makedirs(os.path.join(VERIF, 'replays'), exist_ok=True)
    path = os.path.join(VERIF, 'replays', f'{prop}-{c["seed"]}-process-killed.json')
    json.dump({'property': prop, 'kind': 'process-killed', 'message': 'the library killed the process it is embedded in: ' + tail[-1500:], 'seed': c['seed'],
               'scenario': c['scenario'], 'tapes': None, 'crash': True, 'minimised': False, 'repo_tree': repo_tree_hash()}, open(path, 'w'), indent=1)
    return path


def single(build, env_extra, timeout=600):
    """Runs one worker to completion and returns (rc, results)."""
    w = Worker(build, 'single-%d' % int(time.time() * 1e6), env_extra)
    w.start({})
    try:
        rc = w.proc.wait(timeout=timeout)
    except subprocess.TimeoutExpired:
        w.proc.kill()
        return 2, [{'error': 'timeout'}]
    return rc, w.read_new()


def load_known():
    p = os.path.join(VERIF, 'known_findings.json')
    if not os.path.exists(p):
        return []
    return json.load(open(p)).get('findings', [])


def match_known(known, prop, viol):
    import re
    for k in known:
        if k.get('property') != prop or not str(k.get('status', '')).startswith('open'):
            continue
        if k.get('kind_regex') and not re.search(k['kind_regex'], viol['kind']):
            continue
        if k.get('kind') and k['kind'] != viol['kind']:
            continue
        if k.get('message_regex') and not re.search(k['message_regex'], viol['msg']):
            continue
        return k
    return None


def run_segment(build, scenario, first, seed, env):
    """Runs seeds first..seed in ONE process (as the batch did) and returns the result for seed."""
    e = dict(env)
    e.update({'SIM_SCENARIO': scenario, 'SIM_SEEDS': f'{first}:{seed - first + 1}'})
    rc, out = single(build, e, timeout=1800)
    for x in out:
        if x.get('seed') == seed:
            return x
    return None


def confirm_in_context(build, prop, scenario, res, viol, env):
    """Fallback for a violation that does not replay alone in a fresh process: re-run the seeds the
    worker process had executed before it, in one process. If the violation comes back the result
    depends on process history the simulator failed to neutralise (DESIGN.md 13); it is still a
    violation of the code under test, reported with a replay file that names the whole segment."""
    first = res.get('_proc_start')
    if first is None or first >= res['seed'] or env.get('SIM_ENUM'):
        return None
    x = run_segment(build, scenario, first, res['seed'], env)
    if not x or not any(v['kind'] == viol['kind'] and v['prop'] in (prop, '*') for v in (x.get('violations') or [])):
        return None
    path = os.path.join(VERIF, 'replays', f'{prop}-{res["seed"]}-{viol["kind"]}.json')
    rf = {'property': prop, 'kind': viol['kind'], 'message': viol['msg'], 'seed': res['seed'], 'scenario': scenario,
          'segment': [first, res['seed'] - first + 1], 'env': {k: v for k, v in env.items() if k.startswith('SIM_')},
          'minimised': False, 'repo_tree': repo_tree_hash(),
          'note': 'reproduces only after the preceding seeds of the segment have run in the same process'}
    json.dump(rf, open(path, 'w'), indent=1)
    return path


def shrink_and_confirm(build, prop, scenario, res, viol, budget_s=90):
    """Writes the replay file for a violation, minimises it, and confirms it replays."""
    os.makedirs(os.path.join(VERIF, 'replays'), exist_ok=True)
    path = os.path.join(VERIF, 'replays', f'{prop}-{res["seed"]}-{viol["kind"]}.json')
    rf = {'property': prop, 'kind': viol['kind'], 'message': viol['msg'], 'seed': res['seed'], 'scenario': scenario,
          'tapes': res['tapes'], 'original_tapes': res['tapes'], 'minimised': False, 'repo_tree': repo_tree_hash(),
          'workload': (res.get('samples') or [None])[0], 'trace': res.get('trace'), 'schedule': res.get('sched'),
          'enum': bool(res.get('enum')), 'enum_pos': res.get('enum_pos', 0), 'enum_variant': res.get('enum_variant', 0)}
    json.dump(rf, open(path, 'w'), indent=1)
    # Confirm the un-minimised tapes replay in a fresh process first.
    rc, out = single(build, {'SIM_SCENARIO': scenario, 'SIM_REPLAY': path})
    rep = [r for r in out if 'seed' in r]
    if not rep or not any(v['prop'] in (prop, '*') and v['kind'] == viol['kind'] for v in (rep[0].get('violations') or [])):
        return path, False, 'the recorded tapes did not reproduce the violation in a fresh process'
    # Minimise.
    t0 = time.time()
    spath = path + '.shrink'
    shutil.copy(path, spath)
    while time.time() - t0 < budget_s:
        rc, out = single(build, {'SIM_SCENARIO': scenario, 'SIM_SHRINK': spath}, timeout=max(5, budget_s - (time.time() - t0)))
        if rc == 3:
            continue
        break
    try:
        st = json.load(open(spath))
        cand = dict(rf)
        cand['tapes'] = st['tapes']
        cand['minimised'] = True
        cand['shrink_runs'] = st.get('shrink_runs')
        cpath = path + '.cand'
        json.dump(cand, open(cpath, 'w'), indent=1)
        rc, out = single(build, {'SIM_SCENARIO': scenario, 'SIM_REPLAY': cpath})
        rep = [r for r in out if 'seed' in r]
        if rep and any(v['prop'] in (prop, '*') and v['kind'] == viol['kind'] for v in (rep[0].get('violations') or [])):
            cand['trace'] = rep[0].get('trace')
            cand['schedule'] = rep[0].get('sched')
            cand['workload'] = (rep[0].get('samples') or [None])[0]
            cand['message'] = [v['msg'] for v in rep[0]['violations'] if v['prop'] in (prop, '*') and v['kind'] == viol['kind']][0]
            json.dump(cand, open(path, 'w'), indent=1)
        os.remove(cpath)
    except Exception as e:  # keep the un-minimised, confirmed file
        print(f'note: minimisation skipped ({e})')
    for p in (spath, spath + '.tmp'):
        if os.path.exists(p):
            os.remove(p)
    return path, True, ''


def write_evidence(prop, tier, seed, level, cov, wall, violations, assumptions):
    os.makedirs(os.path.join(VERIF, 'evidence'), exist_ok=True)
    ev = {'property_id': prop, 'tier': tier, 'seed': seed, 'level': level, 'coverage': cov, 'assumptions': assumptions,
          'wall_s': round(wall, 2), 'violations': violations}
    tmp = os.path.join(VERIF, 'evidence', f'.{prop}.json.tmp')
    json.dump(ev, open(tmp, 'w'), indent=1)
    os.replace(tmp, os.path.join(VERIF, 'evidence', f'{prop}.json'))


def check(prop, tier, runs_override=None, keep=False):
    if prop not in PROPS:
        trouble(f'unknown property {prop}')
    spec = PROPS[prop]
    base_seed = int(os.environ.get('VERIF_SEED', '1'))
    t0 = time.time()
    build = Build()
    try:
        return _check(prop, tier, spec, base_seed, build, t0, runs_override)
    finally:
        if not keep:
            build.cleanup()
        else:
            print('scratch kept at', build.dir)


def _check(prop, tier, spec, base_seed, build, t0, runs_override):
    known = load_known()
    all_results = []
    problems = []
    plan = spec[tier] if tier in spec else spec['quick']
    wall_cap = spec.get('wall_cap', {}).get(tier, 600 if tier == 'quick' else 3600)
    per_scenario = {}
    scen_env = {}
    for si, entry in enumerate(plan):
        scenario, count = entry[0], entry[1]
        if runs_override:
            count = runs_override if len(entry) < 3 else max(1, runs_override // 40)
        start = base_seed * 100_000_000 + si * 10_000_000
        env_extra = {'SIM_PROP': prop}
        env_extra.update(spec.get('env', {}))
        if len(entry) > 2:
            env_extra.update(entry[2])
        scen_env[scenario] = dict(env_extra)
        remaining_cap = max(30, wall_cap - (time.time() - t0))
        results, problem = run_seeds(build, scenario, start, count, env_extra=env_extra, wall_cap=remaining_cap)
        if problem:
            problems.append(problem)
        per_scenario[scenario] = results
        all_results += [(scenario, r) for r in results]

    runs = [(s, r) for s, r in all_results if 'seed' in r]
    errors = [r for s, r in all_results if 'error' in r]
    panics = [(s, r) for s, r in runs if r.get('panic')]
    wall = time.time() - t0

    faults, probes = {}, {}
    steps = sim_ms = budget = dirty = yparks = gparks = 0
    digests, nontriv_digests = set(), set()
    samples = []
    for s, r in runs:
        steps += r.get('steps', 0)
        sim_ms += r.get('sim_ms', 0)
        budget += 1 if r.get('budget') else 0
        dirty += 1 if r.get('dirty') else 0
        yparks += r.get('yield_parks', 0)
        gparks += r.get('gate_parks', 0)
        for k, v in (r.get('faults') or {}).items():
            faults[k] = faults.get(k, 0) + v
        for k, v in (r.get('probes') or {}).items():
            probes[k] = probes.get(k, 0) + v
        digests.add(r.get('sched_digest'))
        if (r.get('nontrivial') or {}).get(prop):
            nontriv_digests.add(r.get('sched_digest'))
        if r.get('samples') and len(samples) < 3:
            samples.append({'scenario': s, 'seed': r['seed'], 'workload': r['samples'][0], 'steps': r.get('steps'),
                            'faults': r.get('faults'), 'violations': r.get('violations')})

    # Violations of this property, grouped by kind.
    viols = {}
    for s, r in runs:
        for v in r.get('violations') or []:
            if v['prop'] in (prop, '*'):
                viols.setdefault(v['kind'], []).append((s, r, v))

    if os.environ.get('VERIF_DEBUG'):
        hist = {}
        for s, r in runs:
            for v in r.get('violations') or []:
                hist.setdefault(v['prop'] + '/' + v['kind'], []).append(r['seed'])
        for k in sorted(hist):
            print(f'DEBUG all-violations {k}: {len(hist[k])} runs, seeds {hist[k][:8]}')

    status = 0
    reported = []
    known_hits = []
    for kind, lst in sorted(viols.items()):
        lst.sort(key=lambda x: (x[1].get('steps', 0), x[1]['seed']))
        s, r, v = lst[0]
        k = match_known(known, prop, v)
        if k is not None:
            known_hits.append((k, v, len(lst)))
            if os.environ.get('VERIF_WITNESS') and 'tapes' in r and not any(h[0] is k for h in known_hits[:-1]):
                # Maintenance mode: refresh the recorded witness history of an open finding.
                path, ok, why = shrink_and_confirm(build, prop, s, r, v, budget_s=spec.get('shrink_s', 90))
                if ok:
                    dst = os.path.join(VERIF, 'findings', f'witness-{k["id"]}.json')
                    shutil.copy(path, dst)
                    os.remove(path)
                    print(f'witness for {k["id"]} refreshed: {dst}')
            continue
        if 'tapes' not in r:
            problems.append(f'violation {prop}/{kind} at seed {r["seed"]} carries no tapes')
            continue
        path, ok, why = shrink_and_confirm(build, prop, s, r, v, budget_s=spec.get('shrink_s', 90))
        if not ok:
            seg = confirm_in_context(build, prop, s, r, v, scen_env.get(s, {}))
            if seg:
                reported.append((kind, seg, v, len(lst)))
                status = 1
                continue
            print(f'INCONCLUSIVE non-reproducible seed={r["seed"]} property={prop} kind={kind}: {why}')
            problems.append(f'non-reproducible violation {prop}/{kind} seed {r["seed"]}')
            continue
        reported.append((kind, path, v, len(lst)))
        status = 1

    # Every open finding of this property carries a recorded witness history; replay it, so the
    # finding is reported on every run and not only when the random search happens to hit it.
    for k in known:
        if k.get('property') != prop or not str(k.get('status', '')).startswith('open') or not k.get('witness'):
            continue
        if any(h[0] is k for h in known_hits):
            continue
        wpath = os.path.join(VERIF, k['witness'])
        try:
            rf = json.load(open(wpath))
            rc, out = single(build, {'SIM_SCENARIO': rf['scenario'], 'SIM_REPLAY': wpath, 'SIM_PROP': prop})
            hit = None
            for r in out:
                for v in r.get('violations') or []:
                    if v['prop'] in (prop, '*') and match_known([k], prop, v) is k:
                        hit = v
            if hit:
                known_hits.append((k, hit, 'recorded witness; 0'))
            else:
                print(f'NOTE: the recorded witness of known finding {k["id"]} ({k["witness"]}) does not reproduce on this tree')
        except Exception as e:  # a stale witness is a maintenance matter, never a verdict
            print(f'NOTE: could not replay the witness of known finding {k["id"]}: {e}')

    crashes, CRASHES[:] = list(CRASHES), []
    for c in crashes[:3]:
        path = confirm_crash(build, prop, c)
        if path:
            print(f'{prop}/process-killed: worker died (status {c["rc"]}) inside {c["scenario"]} seed {c["seed"]}, repeatably, with the library on the stack')
            reported.append(('process-killed', path, {'msg': c['tail'][-300:], 'kind': 'process-killed'}, 1))
            status = 1
        else:
            problems.append(f'worker for {c["scenario"]} died with status {c["rc"]} inside seed {c["seed"]} (not attributable to the library, or not repeatable):\n{c["tail"][-1500:]}')
    seen_known = {}
    for k, v, n in known_hits:
        seen_known.setdefault(k.get('id', k.get('kind')), (k, []))[1].append(f'{v["kind"]}: {n} runs')
    for kid, (k, kinds) in seen_known.items():
        print(f'KNOWN-FINDING: property={prop} {kid} {k["description"]} (this time: {"; ".join(kinds)})')
    for kind, path, v, n in reported:
        print(f'{prop}/{kind} in {n} runs, e.g.: {v["msg"]}')
        print(f'VIOLATION property={prop} replay={path}')

    rate = len(runs) / wall * 3600 if wall > 0 else 0
    cov = {
        'evaluations': len(runs),
        'distinct_nontrivial': len(nontriv_digests),
        'rule': spec['rule'],
        'samples': samples or [{'note': 'no sample recorded'}],
        'distinct_schedules': len(digests),
        'scenarios': {s: len([1 for r in rs if 'seed' in r]) for s, rs in per_scenario.items()},
        'seeds': {s: [base_seed * 100_000_000 + i * 10_000_000, len([1 for r in per_scenario[s] if 'seed' in r])] for i, (s, *_) in enumerate(plan)},
        'runs_per_hour': int(rate),
        'steps': steps,
        'simulated_seconds': round(sim_ms / 1000.0, 1),
        'faults_fired': faults,
        'probes': probes,
        'yield_parks': yparks, 'gate_parks': gparks,
        'budget_exhausted_runs': budget, 'dirty_process_restarts': dirty,
        'build_s': round(build.build_s, 1), 'instrumenter': build.instr_note,
        'components': COMPONENTS,
        'repo_tree': repo_tree_hash(),
        'known_findings_hit': sorted({k.get('id') for k, _, _ in known_hits}),
        'violations_reported': [{'kind': k, 'replay': p, 'runs': n} for k, p, _, n in reported],
        'exhaustive': bool(spec.get('exhaustive')) and not problems,
        'enum_histories': len([1 for _, r in runs if r.get('enum') and r.get('enum_pos', 0) == -1]),
        'enum_fault_runs': len([1 for _, r in runs if r.get('enum') and r.get('enum_pos', 0) != -1]),
    }
    zero = [p for p in spec.get('expect_probes', []) if probes.get(p, 0) == 0]
    if zero:
        cov['probes_stuck_at_zero'] = zero
        print('warning: probes stuck at zero:', zero)
    if problems or errors or panics:
        cov['harness_trouble'] = problems + [e['error'] for e in errors] + [f'panic seed {r["seed"]}: {r["panic"][:300]}' for _, r in panics]
    write_evidence(prop, tier, base_seed, spec.get('level', 'exploration'), cov, wall, len(reported), spec.get('assumptions', []))
    print(f'{prop} [{tier}] runs={len(runs)} nontrivial-distinct={len(nontriv_digests)} schedules={len(digests)} steps={steps} '
          f'faults={sum(faults.values())} wall={wall:.1f}s ({int(rate)} runs/h) violations={len(reported)} known={len(seen_known)}')
    if status == 1:
        return 1
    if panics:
        s, r = panics[0]
        print(f'TROUBLE: panic inside the simulation at seed {r["seed"]} ({s}):\n{r["panic"][:2000]}')
        return 2
    if problems or errors:
        for p in problems:
            print('TROUBLE:', p)
        for e in errors:
            print('TROUBLE:', e['error'])
        return 2
    if len(runs) == 0:
        print('TROUBLE: no runs completed')
        return 2
    return 0


def replay(prop, path):
    rf = json.load(open(path))
    build = Build()
    try:
        if rf.get('segment'):
            x = run_segment(build, rf['scenario'], rf['segment'][0], rf['seed'], rf.get('env') or {})
            hit = [v for v in ((x or {}).get('violations') or []) if v['prop'] in (rf['property'], '*') and v['kind'] == rf['kind']]
            if hit:
                print(f'{rf["property"]}/{rf["kind"]}: {hit[0]["msg"]}')
                print(f'VIOLATION property={rf["property"]} replay={path}')
                return 1
            print(f'NOT REPRODUCED: {path} (segment replay)')
            return 2 if repo_tree_hash() == rf.get('repo_tree') else 0
        rc, out = single(build, {'SIM_SCENARIO': rf['scenario'], 'SIM_REPLAY': os.path.abspath(path)})
        rep = [r for r in out if 'seed' in r]
        if not rep and rf.get('crash') and rc not in (0, 3):
            print(f'{rf["property"]}/process-killed: the replayed run killed the worker process again (status {rc})')
            print(f'VIOLATION property={rf["property"]} replay={path}')
            return 1
        if not rep:
            trouble(f'replay produced no result (rc={rc}): {out}')
        r = rep[0]
        hit = [v for v in (r.get('violations') or []) if v['prop'] in (rf['property'], '*') and v['kind'] == rf['kind']]
        for line in (r.get('trace') or [])[-60:]:
            print('   ', line)
        if hit:
            print(f'{rf["property"]}/{rf["kind"]}: {hit[0]["msg"]}')
            print(f'VIOLATION property={rf["property"]} replay={path}')
            return 1
        print(f'NOT REPRODUCED: {path} (tree {repo_tree_hash()}, recorded on {rf.get("repo_tree")}); violations now: {r.get("violations")}')
        return 2 if repo_tree_hash() == rf.get('repo_tree') else 0
    finally:
        build.cleanup()


def selftest_determinism(scenario, nseeds, nprocs, repeats):
    build = Build()
    try:
        base = 7_000_000
        table = {}
        div = 0
        total = 0
        for rep in range(repeats):
            procs = nprocs[rep % len(nprocs)]
            # every process runs the SAME seeds; compare digests across processes
            ws = []
            for i in range(procs):
                # Every process runs the SAME seeds; two in three start part-way into the
                # range, so a result that depends on what ran earlier in the process shows up too.
                start = base + (nseeds // 2 if i % 3 == 2 else nseeds // 5 if i % 3 == 1 else 0)
                w = Worker(build, f'det-{rep}-{i}', {'SIM_SCENARIO': scenario, 'SIM_SEEDS': f'{start}:{base + nseeds - start}'})
                w.det_start = start
                w.start({})
                ws.append(w)
            for w in ws:
                w.proc.wait()
                # A dirty run ends the process; restart for the rest.
                start = w.det_start
                want = base + nseeds - start
                res = w.read_new()
                got = {r['seed']: r for r in res if 'seed' in r}
                nxt = start + len(got)
                while len(got) < want and res and (res[-1].get('dirty') or res[-1].get('panic')):
                    w.start({'SIM_SEEDS': f'{nxt}:{base + nseeds - nxt}'})
                    w.proc.wait()
                    res = w.read_new()
                    if not res:
                        break
                    for r in res:
                        if 'seed' in r:
                            got[r['seed']] = r
                    nxt = start + len(got)
                for seed, r in got.items():
                    total += 1
                    d = (r['digest'], r['sched_digest'], json.dumps(r.get('violations'), sort_keys=True))
                    if seed not in table:
                        table[seed] = d
                    elif table[seed] != d:
                        div += 1
                        print(f'DIVERGENCE seed={seed}: {table[seed]} vs {d}')
        print(f'determinism: scenario={scenario} seeds={nseeds} runs={total} divergences={div}')
        return 0 if div == 0 else 2
    finally:
        build.cleanup()


def main():
    ap = argparse.ArgumentParser()
    ap.add_argument('what')
    ap.add_argument('--tier', default=os.environ.get('VERIF_TIER', 'quick'))
    ap.add_argument('--replay')
    ap.add_argument('--runs', type=int)
    ap.add_argument('--keep-scratch', action='store_true')
    ap.add_argument('--scenario', default='life:general')
    ap.add_argument('--seeds', type=int, default=200)
    ap.add_argument('--procs', default='4,16,32')
    ap.add_argument('--repeats', type=int, default=3)
    a = ap.parse_args()
    if a.what == 'setup':
        setup()
        b = Build()  # warms the Go build cache
        print(f'setup ok: {b.instr_note}; simulation binary built in {b.build_s:.1f}s')
        b.cleanup()
        return 0
    if a.what == 'selftest-determinism':
        return selftest_determinism(a.scenario, a.seeds, [int(x) for x in a.procs.split(',')], a.repeats)
    if a.replay:
        return replay(a.what, a.replay)
    return check(a.what, a.tier, a.runs, a.keep_scratch)


if __name__ == '__main__':
    signal.signal(signal.SIGTERM, lambda *_: sys.exit(2))
    sys.exit(main())
