// instr rewrites a scratch copy of the bloomsearch package for simulation (DESIGN.md §2.3,
// Appendix B). It never touches /repo: the check's build step copies the working tree first.
//
//	instr <dir>
//
// For every non-test .go file in <dir>:
//  1. inserts simrt.Yield("<file>:<line>") before each statement that performs a synchronisation
//     operation (channel send/receive, select, close, Lock/Unlock/..., WaitGroup, atomics,
//     context cancel functions, ctx.Err());
//  2. turns `go f(args)` into simrt.Go("<file>:<line>", func(){ f(args') }) with the arguments
//     evaluated in the spawning goroutine;
//  3. in file_system_store.go, replaces the import "os" by os "verifsim/simos";
//
// and writes zz_verif_export.go, the export shim the harness uses for the two unexported things
// it needs.
package main

import (
	"fmt"
	"go/ast"
	"go/parser"
	"go/printer"
	"go/token"
	"os"
	"path/filepath"
	"sort"
	"strconv"
	"strings"
)

var syncNames = map[string]bool{
	"Lock": true, "RLock": true, "Unlock": true, "RUnlock": true, "TryLock": true, "TryRLock": true,
	"Wait": true, "Done": true, "Add": true, "Store": true, "Load": true, "Swap": true,
	"CompareAndSwap": true, "Do": true, "Signal": true, "Broadcast": true,
}

func isCancelName(s string) bool {
	l := strings.ToLower(s)
	return strings.HasSuffix(l, "cancel") || l == "stopafter"
}

func exprName(e ast.Expr) string {
	switch v := e.(type) {
	case *ast.Ident:
		return v.Name
	case *ast.SelectorExpr:
		return exprName(v.X) + "." + v.Sel.Name
	}
	return ""
}

// hasSync reports whether n (not descending into function literals) performs a synchronisation
// operation.
func hasSync(n ast.Node) bool {
	if n == nil {
		return false
	}
	found := false
	ast.Inspect(n, func(x ast.Node) bool {
		if found || x == nil {
			return false
		}
		switch v := x.(type) {
		case *ast.FuncLit:
			return false
		case *ast.SendStmt, *ast.SelectStmt:
			found = true
		case *ast.UnaryExpr:
			if v.Op == token.ARROW {
				found = true
			}
		case *ast.CallExpr:
			switch f := v.Fun.(type) {
			case *ast.SelectorExpr:
				if syncNames[f.Sel.Name] || isCancelName(f.Sel.Name) {
					found = true
				}
				if f.Sel.Name == "Err" && strings.Contains(strings.ToLower(exprName(f.X)), "ctx") {
					found = true
				}
			case *ast.Ident:
				if isCancelName(f.Name) || f.Name == "close" {
					found = true
				}
			}
		}
		return true
	})
	return found
}

// stmtHasSync tests only a compound statement's own header; bodies are visited as their own
// statement lists.
func stmtHasSync(s ast.Stmt) bool {
	switch v := s.(type) {
	case *ast.DeferStmt, *ast.GoStmt, *ast.LabeledStmt, *ast.CommClause, *ast.CaseClause,
		*ast.ForStmt, *ast.RangeStmt, *ast.TypeSwitchStmt, *ast.BlockStmt, *ast.DeclStmt, *ast.EmptyStmt,
		*ast.BranchStmt:
		return false
	case *ast.SelectStmt:
		return true
	case *ast.IfStmt:
		return hasSync(v.Init) || hasSync(v.Cond)
	case *ast.SwitchStmt:
		return hasSync(v.Init) || hasSync(v.Tag)
	default:
		return hasSync(s)
	}
}

type rewriter struct {
	fset *token.FileSet
	file string
	used bool
	tmp  int
	nY   int
	nG   int
}

func (r *rewriter) site(pos token.Pos) ast.Expr {
	return &ast.BasicLit{Kind: token.STRING, Value: strconv.Quote(r.file + ":" + strconv.Itoa(r.fset.Position(pos).Line))}
}

func simrtCall(fn string, args ...ast.Expr) *ast.CallExpr {
	return &ast.CallExpr{Fun: &ast.SelectorExpr{X: ast.NewIdent("simrt"), Sel: ast.NewIdent(fn)}, Args: args}
}

func (r *rewriter) rewriteGo(g *ast.GoStmt) []ast.Stmt {
	r.used = true
	r.nG++
	var pre []ast.Stmt
	call := g.Call
	if fl, ok := call.Fun.(*ast.FuncLit); ok && len(call.Args) == 0 {
		return []ast.Stmt{&ast.ExprStmt{X: simrtCall("Go", r.site(g.Pos()), fl)}}
	}
	// Evaluate arguments now, in the spawning goroutine.
	newArgs := make([]ast.Expr, len(call.Args))
	for i, a := range call.Args {
		r.tmp++
		id := ast.NewIdent("verifGoArg" + strconv.Itoa(r.tmp))
		pre = append(pre, &ast.AssignStmt{Lhs: []ast.Expr{id}, Tok: token.DEFINE, Rhs: []ast.Expr{a}})
		newArgs[i] = ast.NewIdent(id.Name)
	}
	inner := &ast.CallExpr{Fun: call.Fun, Args: newArgs, Ellipsis: call.Ellipsis}
	fn := &ast.FuncLit{Type: &ast.FuncType{Params: &ast.FieldList{}}, Body: &ast.BlockStmt{List: []ast.Stmt{&ast.ExprStmt{X: inner}}}}
	spawn := &ast.ExprStmt{X: simrtCall("Go", r.site(g.Pos()), fn)}
	if len(pre) == 0 {
		return []ast.Stmt{spawn}
	}
	return []ast.Stmt{&ast.BlockStmt{List: append(pre, spawn)}}
}

func (r *rewriter) rewriteList(list []ast.Stmt) []ast.Stmt {
	out := make([]ast.Stmt, 0, len(list)+4)
	for _, s := range list {
		if g, ok := s.(*ast.GoStmt); ok {
			out = append(out, r.rewriteGo(g)...)
			continue
		}
		if stmtHasSync(s) {
			out = append(out, &ast.ExprStmt{X: simrtCall("Yield", r.site(s.Pos()))})
			r.used = true
			r.nY++
		}
		out = append(out, s)
	}
	return out
}

const exportShim = `package bloomsearch

// Export shim written by /verif/instr into the scratch copy only (never into /repo).

// VerifSetDrawFileName overrides the store's file name draw (C16 forced collisions).
func VerifSetDrawFileName(fs *FileSystemDataStore, f func() string) { fs.drawFileName = f }

// VerifQuerySemaphoreLen reports how many query-semaphore slots are currently held (C21).
func VerifQuerySemaphoreLen(b *BloomSearchEngine) int { return len(b.querySemaphore) }

// VerifQuerySemaphoreCap reports the semaphore's capacity.
func VerifQuerySemaphoreCap(b *BloomSearchEngine) int { return cap(b.querySemaphore) }
`

func main() {
	if len(os.Args) != 2 {
		fmt.Fprintln(os.Stderr, "usage: instr <dir>")
		os.Exit(2)
	}
	dir := os.Args[1]
	files, _ := filepath.Glob(filepath.Join(dir, "*.go"))
	sort.Strings(files)
	totalY, totalG := 0, 0
	for _, path := range files {
		if strings.HasSuffix(path, "_test.go") {
			continue
		}
		fset := token.NewFileSet()
		f, err := parser.ParseFile(fset, path, nil, parser.ParseComments)
		if err != nil {
			fmt.Fprintln(os.Stderr, "instr: parse:", err)
			os.Exit(2)
		}
		base := filepath.Base(path)
		r := &rewriter{fset: fset, file: base}
		ast.Inspect(f, func(n ast.Node) bool {
			switch v := n.(type) {
			case *ast.BlockStmt:
				v.List = r.rewriteList(v.List)
			case *ast.CaseClause:
				v.Body = r.rewriteList(v.Body)
			case *ast.CommClause:
				v.Body = r.rewriteList(v.Body)
			}
			return true
		})
		if base == "file_system_store.go" {
			for _, imp := range f.Imports {
				if imp.Path.Value == `"os"` {
					imp.Path.Value = `"verifsim/simos"`
					imp.Name = ast.NewIdent("os")
				}
			}
		}
		if r.used {
			imp := &ast.GenDecl{Tok: token.IMPORT, Specs: []ast.Spec{&ast.ImportSpec{Path: &ast.BasicLit{Kind: token.STRING, Value: `"verifsim/simrt"`}}}}
			f.Decls = append([]ast.Decl{imp}, f.Decls...)
		}
		out, err := os.Create(path)
		if err != nil {
			fmt.Fprintln(os.Stderr, "instr:", err)
			os.Exit(2)
		}
		if err := printer.Fprint(out, fset, f); err != nil {
			fmt.Fprintln(os.Stderr, "instr: print:", err)
			os.Exit(2)
		}
		out.Close()
		totalY += r.nY
		totalG += r.nG
	}
	if err := os.WriteFile(filepath.Join(dir, "zz_verif_export.go"), []byte(exportShim), 0o644); err != nil {
		fmt.Fprintln(os.Stderr, "instr:", err)
		os.Exit(2)
	}
	fmt.Printf("instr: %d yield sites, %d spawn sites\n", totalY, totalG)
}
