module instr

go 1.26.0
