#!/usr/bin/env python3
"""Generate the Go 1.26.8 runtime overlay used by the simulation binary (DESIGN.md Appendix A).

usage: gen_overlay.py <outdir>
Copies five runtime files and three files of internal/runtime/maps, applies anchored replacements (each anchor must occur exactly once)
and writes overlay.json mapping the GOROOT paths to the patched copies.
"""
import json, os, sys

GOROOT = os.environ.get('VERIF_GOROOT', '/opt/veriftools/go1.26.8')
R = GOROOT + '/src'
O = os.path.abspath(sys.argv[1])
os.makedirs(O, exist_ok=True)


FILES = {}


def patch(name, reps, append='', pkg='runtime', count=1):
    s = open(f'{R}/{pkg}/{name}').read()
    for a, b in reps:
        n = s.count(a)
        if n != count:
            sys.stderr.write(f'gen_overlay: anchor occurs {n} times in runtime/{name}: {a!r}\n')
            sys.exit(2)
        s = s.replace(a, b)
    out = name if pkg == 'runtime' else pkg.replace('/', '_') + '_' + name
    open(f'{O}/{out}', 'w').write(s + append)
    FILES[f'{R}/{pkg}/{name}'] = f'{O}/{out}'


patch('select.go',
      [("j := cheaprandn(uint32(norder + 1))", "j := simSelectRandn(uint32(norder + 1))")],
      """
// ---- DetSim overlay ----

//go:linkname SimSeed
var SimSeed uint64

//go:linkname SimRand
var SimRand uint64

//go:linkname SimNoPreempt
var SimNoPreempt uint32

// SimMapSeed, when non-zero, is the hash seed of every map created during the run; SimIter is the
// stream map iterations draw their starting offsets from. Keeping them apart from the general
// rand() stream makes map behaviour independent of how many once-only initialisations (which
// create maps and draw seeds) already happened in the process.
//
//go:linkname SimMapSeed
var SimMapSeed uint64

//go:linkname SimIter
var SimIter uint64

//go:linkname maps_randSeed internal/runtime/maps.randSeed
func maps_randSeed() uint64 {
	if SimMapSeed != 0 {
		return SimMapSeed
	}
	return rand()
}

// SimMath is the stream behind math/rand and math/rand/v2's top-level functions (the file system
// store draws file names from it), apart from rand() for the same reason.
//
//go:linkname SimMath
var SimMath uint64

//go:linkname simMathRand
func simMathRand() uint64 {
	if SimMath != 0 {
		return simStep(&SimMath)
	}
	return rand()
}

// SimStarve pins sync.Mutex's starvation-mode switch, which the real code takes when a waiter has
// waited more than 1 ms of REAL time (runtime.nanotime is not virtualised inside a synctest bubble):
// a goroutine parked by the simulator while it holds a lock makes its waiters cross that threshold
// or not depending on machine load, and the hand-off order changes with it. 1 = every waiter counts
// as starving (FIFO hand-off), 2 = none does; 0 = real behaviour.
//
//go:linkname SimStarve
var SimStarve uint32

//go:linkname sync_simStarve internal/sync.runtime_simStarve
func sync_simStarve(real bool) bool {
	switch SimStarve {
	case 1:
		return true
	case 2:
		return false
	}
	return real
}

//go:linkname maps_randIter internal/runtime/maps.randIter
func maps_randIter() uint64 {
	if SimIter != 0 {
		return simStep(&SimIter)
	}
	return rand()
}

//go:nosplit
func simStep(p *uint64) uint64 {
	x := *p
	x ^= x << 13
	x ^= x >> 7
	x ^= x << 17
	*p = x
	return x * 0x2545F4914F6CDD1D
}

func simSelectRandn(n uint32) uint32 {
	if SimSeed == 0 {
		return cheaprandn(n)
	}
	return uint32((simStep(&SimSeed) >> 33) % uint64(n))
}
""")
patch('rand.go',
      [("	mp := getg().m\n	c := &mp.chacha8\n",
        "	if SimRand != 0 {\n		return simStep(&SimRand)\n	}\n	mp := getg().m\n	c := &mp.chacha8\n")])
patch('alg.go',
      [("		key[i] = bootstrapRand()", "		key[i] = 0x243f6a8885a308d3 * uint64(i+1)"),
       ("		hashkey[i] = uintptr(bootstrapRand())", "		hashkey[i] = uintptr(0x243f6a8885a308d3 * uint64(i+1))")])
patch('runtime2.go',
      [("	waitReasonSynctestSelect:        true,\n}",
        "	waitReasonSynctestSelect:        true,\n	waitReasonSyncMutexLock:         true,\n	waitReasonSyncRWMutexRLock:      true,\n	waitReasonSyncRWMutexLock:       true,\n}")],
      """
// ---- DetSim overlay ----

//go:linkname SimGoid
func SimGoid() uint64 { return getg().goid }
""")
patch('proc.go',
      [("		} else if pd.schedwhen+forcePreemptNS <= now {\n			preemptone(pp)\n",
        "		} else if pd.schedwhen+forcePreemptNS <= now {\n			if SimNoPreempt == 0 {\n				preemptone(pp)\n			}\n")])
MAPS = 'internal/runtime/maps'
patch('map.go', [("m.seed = uintptr(rand())", "m.seed = uintptr(randSeed())")], pkg=MAPS, count=4)
patch('table.go', [("it.entryOffset = rand()", "it.entryOffset = randIter()"), ("it.dirOffset = rand()", "it.dirOffset = randIter()")], pkg=MAPS)
patch('runtime.go', [("//go:linkname rand\nfunc rand() uint64\n",
                      "//go:linkname rand\nfunc rand() uint64\n\n//go:linkname randSeed\nfunc randSeed() uint64\n\n//go:linkname randIter\nfunc randIter() uint64\n")], pkg=MAPS)
patch('rand.go', [("//go:linkname runtime_rand runtime.rand\n", "//go:linkname runtime_rand runtime.simMathRand\n")], pkg='math/rand/v2')
patch('rand.go', [("//go:linkname runtime_rand runtime.rand\n", "//go:linkname runtime_rand runtime.simMathRand\n")], pkg='math/rand')
patch('mutex.go', [("starving = starving || runtime_nanotime()-waitStartTime > starvationThresholdNs",
                     "starving = starving || runtime_simStarve(runtime_nanotime()-waitStartTime > starvationThresholdNs)")], pkg='internal/sync')
patch('runtime.go', [("//go:linkname runtime_nanotime\nfunc runtime_nanotime() int64\n",
                       "//go:linkname runtime_nanotime\nfunc runtime_nanotime() int64\n\n//go:linkname runtime_simStarve\nfunc runtime_simStarve(real bool) bool\n")], pkg='internal/sync')
json.dump({"Replace": FILES}, open(f'{O}/overlay.json', 'w'), indent=1)
print('overlay written to', O)
