// Package simos is the simulated operating-system file API that replaces package os in the
// instrumented copy of file_system_store.go (DESIGN.md §2.5). It models what crash consistency
// depends on: inodes with volatile and durable content, directories with volatile and durable
// entry sets plus the ordered list of not-yet-fsynced directory operations, fsync(file) and
// fsync(dir), POSIX open-handle semantics, atomic rename. Every call is a gate (scheduling
// point, fault site, crash point).
package simos

import (
	"errors"
	"io"
	"io/fs"
	realos "os"
	"path/filepath"
	"sort"
	"strings"
	"sync"
	"syscall"
	"time"

	"verifsim/simrt"
)

// Re-exported constants and helpers the store uses.
const (
	O_RDONLY = realos.O_RDONLY
	O_WRONLY = realos.O_WRONLY
	O_RDWR   = realos.O_RDWR
	O_APPEND = realos.O_APPEND
	O_CREATE = realos.O_CREATE
	O_EXCL   = realos.O_EXCL
	O_SYNC   = realos.O_SYNC
	O_TRUNC  = realos.O_TRUNC
)

type (
	FileMode  = fs.FileMode
	FileInfo  = fs.FileInfo
	DirEntry  = fs.DirEntry
	PathError = fs.PathError
)

var (
	ErrNotExist = fs.ErrNotExist
	ErrExist    = fs.ErrExist
	ErrClosed   = fs.ErrClosed
)

func IsExist(err error) bool    { return realos.IsExist(err) }
func IsNotExist(err error) bool { return realos.IsNotExist(err) }

// Fault codes carried in simrt.Decision.Fault for os.* gates.
const (
	FaultNone    = 0
	FaultEIO     = 1 // call fails with EIO, no effect
	FaultENOSPC  = 2 // call fails with ENOSPC, no effect (writes: possibly a short write, Arg = bytes kept)
	FaultLateErr = 3 // effect applied, then the call reports EIO (rename, fsync of a directory)
)

// ErrInjectedEIO / ErrInjectedENOSPC are the sentinel errors wrapped by injected failures.
var (
	ErrInjectedEIO    = syscall.EIO
	ErrInjectedENOSPC = syscall.ENOSPC
)

type inode struct {
	id     int
	vol    []byte // content as the running system sees it
	dur    []byte // content as of the last fsync of the file
	synced bool   // vol == dur (no un-fsynced data)
}

// DirOp is a directory mutation not yet made durable by an fsync of the directory.
type DirOp struct {
	Kind string // "create", "remove", "rename"
	Name string
	To   string // rename target
	Ino  int
}

type dir struct {
	vol     map[string]*inode
	dur     map[string]*inode
	pending []DirOp
}

// FS is one simulated file system.
type FS struct {
	mu      sync.Mutex
	dirs    map[string]*dir
	nextIno int
	Version uint64 // bumped by every mutation (volatile or durable)
	Ops     uint64 // number of simos calls executed
	OpLog   []string
}

// Current is the file system every package-level function operates on. The controller swaps it
// while all actors are parked (crash recovery on images).
var Current = NewFS()

func NewFS() *FS { return &FS{dirs: map[string]*dir{}} }

func (f *FS) dirOf(path string) (*dir, string) {
	d := f.dirs[filepath.Dir(path)]
	return d, filepath.Base(path)
}

func (f *FS) bump(op string) {
	f.Version++
	f.Ops++
}

func gate(kind, site string) simrt.Decision {
	return simrt.Gate("os."+kind, site, nil)
}

func injected(op, path string, d simrt.Decision) error {
	switch d.Fault {
	case FaultEIO, FaultLateErr:
		return &fs.PathError{Op: op, Path: path, Err: syscall.EIO}
	case FaultENOSPC:
		return &fs.PathError{Op: op, Path: path, Err: syscall.ENOSPC}
	}
	return nil
}

// ---- package-level API (the subset of package os the store uses, plus a little more) ----

func MkdirAll(path string, perm FileMode) error {
	d := gate("mkdir", path)
	if d.Fault == FaultEIO || d.Fault == FaultENOSPC {
		return injected("mkdir", path, d)
	}
	f := Current
	f.mu.Lock()
	defer f.mu.Unlock()
	p := filepath.Clean(path)
	for {
		if f.dirs[p] == nil {
			f.dirs[p] = &dir{vol: map[string]*inode{}, dur: map[string]*inode{}}
			f.bump("mkdir")
		}
		parent := filepath.Dir(p)
		if parent == p {
			break
		}
		p = parent
	}
	return nil
}

type fileInfo struct {
	name  string
	size  int64
	isDir bool
}

func (i fileInfo) Name() string { return i.name }
func (i fileInfo) Size() int64  { return i.size }
func (i fileInfo) Mode() fs.FileMode {
	if i.isDir {
		return fs.ModeDir | 0o755
	}
	return 0o600
}
func (i fileInfo) ModTime() time.Time { return time.Time{} }
func (i fileInfo) IsDir() bool        { return i.isDir }
func (i fileInfo) Sys() any           { return nil }

type dirEntry struct{ fileInfo }

func (e dirEntry) Type() fs.FileMode          { return e.Mode().Type() }
func (e dirEntry) Info() (fs.FileInfo, error) { return e.fileInfo, nil }

func Stat(path string) (FileInfo, error) {
	d := gate("stat", path)
	if err := injected("stat", path, d); err != nil && d.Fault != FaultLateErr {
		return nil, err
	}
	f := Current
	f.mu.Lock()
	defer f.mu.Unlock()
	p := filepath.Clean(path)
	if f.dirs[p] != nil {
		return fileInfo{name: filepath.Base(p), isDir: true}, nil
	}
	dd, name := f.dirOf(p)
	if dd == nil || dd.vol[name] == nil {
		return nil, &fs.PathError{Op: "stat", Path: path, Err: syscall.ENOENT}
	}
	return fileInfo{name: name, size: int64(len(dd.vol[name].vol))}, nil
}

func ReadDir(path string) ([]DirEntry, error) {
	d := gate("readdir", path)
	if err := injected("readdir", path, d); err != nil && d.Fault != FaultLateErr {
		return nil, err
	}
	f := Current
	f.mu.Lock()
	defer f.mu.Unlock()
	f.Ops++
	p := filepath.Clean(path)
	dd := f.dirs[p]
	if dd == nil {
		return nil, &fs.PathError{Op: "open", Path: path, Err: syscall.ENOENT}
	}
	names := make([]string, 0, len(dd.vol))
	for n := range dd.vol {
		names = append(names, n)
	}
	sort.Strings(names)
	out := make([]DirEntry, 0, len(names))
	for _, n := range names {
		out = append(out, dirEntry{fileInfo{name: n, size: int64(len(dd.vol[n].vol))}})
	}
	// Sub-directories.
	var subs []string
	for dp := range f.dirs {
		if dp != p && filepath.Dir(dp) == p {
			subs = append(subs, filepath.Base(dp))
		}
	}
	sort.Strings(subs)
	for _, n := range subs {
		out = append(out, dirEntry{fileInfo{name: n, isDir: true}})
	}
	sort.Slice(out, func(i, j int) bool { return out[i].Name() < out[j].Name() })
	return out, nil
}

func Open(path string) (*File, error) { return OpenFile(path, O_RDONLY, 0) }

func Create(path string) (*File, error) {
	return OpenFile(path, O_RDWR|O_CREATE|O_TRUNC, 0o666)
}

func OpenFile(path string, flag int, perm FileMode) (*File, error) {
	kind := "open"
	if flag&O_CREATE != 0 {
		kind = "create"
	}
	d := gate(kind, path)
	if d.Fault == FaultEIO || d.Fault == FaultENOSPC {
		return nil, injected("open", path, d)
	}
	f := Current
	f.mu.Lock()
	defer f.mu.Unlock()
	f.Ops++
	p := filepath.Clean(path)
	if f.dirs[p] != nil {
		return &File{fs: f, path: p, isDir: true}, nil
	}
	dd, name := f.dirOf(p)
	if dd == nil {
		return nil, &fs.PathError{Op: "open", Path: path, Err: syscall.ENOENT}
	}
	ino := dd.vol[name]
	if ino == nil {
		if flag&O_CREATE == 0 {
			return nil, &fs.PathError{Op: "open", Path: path, Err: syscall.ENOENT}
		}
		f.nextIno++
		ino = &inode{id: f.nextIno, synced: true}
		dd.vol[name] = ino
		dd.pending = append(dd.pending, DirOp{Kind: "create", Name: name, Ino: ino.id})
		f.bump("create")
	} else {
		if flag&O_CREATE != 0 && flag&O_EXCL != 0 {
			return nil, &fs.PathError{Op: "open", Path: path, Err: syscall.EEXIST}
		}
		if flag&O_TRUNC != 0 && len(ino.vol) > 0 {
			ino.vol = nil
			ino.synced = false
			f.bump("trunc")
		}
	}
	h := &File{fs: f, path: p, ino: ino, flag: flag}
	if flag&O_APPEND != 0 {
		h.pos = int64(len(ino.vol))
	}
	if d.Fault == FaultLateErr {
		return nil, injected("open", path, d)
	}
	return h, nil
}

func Remove(path string) error {
	d := gate("remove", path)
	if d.Fault == FaultEIO || d.Fault == FaultENOSPC {
		return injected("remove", path, d)
	}
	f := Current
	f.mu.Lock()
	defer f.mu.Unlock()
	f.Ops++
	p := filepath.Clean(path)
	dd, name := f.dirOf(p)
	if dd == nil || dd.vol[name] == nil {
		return &fs.PathError{Op: "remove", Path: path, Err: syscall.ENOENT}
	}
	ino := dd.vol[name]
	delete(dd.vol, name)
	dd.pending = append(dd.pending, DirOp{Kind: "remove", Name: name, Ino: ino.id})
	f.bump("remove")
	if d.Fault == FaultLateErr {
		return injected("remove", path, d)
	}
	return nil
}

func Rename(oldpath, newpath string) error {
	d := gate("rename", oldpath+" -> "+filepath.Base(newpath))
	if d.Fault == FaultEIO || d.Fault == FaultENOSPC {
		return &realos.LinkError{Op: "rename", Old: oldpath, New: newpath, Err: syscall.EIO}
	}
	f := Current
	f.mu.Lock()
	defer f.mu.Unlock()
	f.Ops++
	op, np := filepath.Clean(oldpath), filepath.Clean(newpath)
	od, oname := f.dirOf(op)
	nd, nname := f.dirOf(np)
	if od == nil || nd == nil || od.vol[oname] == nil {
		return &realos.LinkError{Op: "rename", Old: oldpath, New: newpath, Err: syscall.ENOENT}
	}
	if od != nd {
		return &realos.LinkError{Op: "rename", Old: oldpath, New: newpath, Err: syscall.EXDEV}
	}
	ino := od.vol[oname]
	delete(od.vol, oname)
	nd.vol[nname] = ino
	nd.pending = append(nd.pending, DirOp{Kind: "rename", Name: oname, To: nname, Ino: ino.id})
	f.bump("rename")
	if d.Fault == FaultLateErr {
		return &realos.LinkError{Op: "rename", Old: oldpath, New: newpath, Err: syscall.EIO}
	}
	return nil
}

// ---- File ----

type File struct {
	fs     *FS
	path   string
	ino    *inode
	flag   int
	pos    int64
	closed bool
	isDir  bool
}

func (h *File) Name() string { return h.path }

func (h *File) Write(p []byte) (int, error) {
	d := gate("write", filepath.Base(h.path)+"@"+itoa(int(h.pos))+"+"+itoa(len(p)))
	if h.closed {
		return 0, &fs.PathError{Op: "write", Path: h.path, Err: fs.ErrClosed}
	}
	if h.isDir || h.flag&(O_WRONLY|O_RDWR) == 0 {
		return 0, &fs.PathError{Op: "write", Path: h.path, Err: syscall.EBADF}
	}
	n := len(p)
	var err error
	switch d.Fault {
	case FaultEIO:
		return 0, injected("write", h.path, d)
	case FaultENOSPC:
		n = int(d.Arg)
		if n > len(p) {
			n = len(p)
		}
		if n < 0 {
			n = 0
		}
		err = injected("write", h.path, d)
	}
	f := h.fs
	f.mu.Lock()
	defer f.mu.Unlock()
	f.Ops++
	if n > 0 {
		end := h.pos + int64(n)
		// Copy-on-write so snapshots sharing the old slice stay intact.
		nv := make([]byte, max(int64(len(h.ino.vol)), end))
		copy(nv, h.ino.vol)
		copy(nv[h.pos:], p[:n])
		h.ino.vol = nv
		h.ino.synced = false
		h.pos = end
		f.bump("write")
	}
	return n, err
}

func (h *File) Read(p []byte) (int, error) {
	d := gate("read", filepath.Base(h.path)+"@"+itoa(int(h.pos))+"+"+itoa(len(p)))
	if h.closed {
		return 0, &fs.PathError{Op: "read", Path: h.path, Err: fs.ErrClosed}
	}
	if d.Fault == FaultEIO {
		return 0, injected("read", h.path, d)
	}
	if h.isDir {
		return 0, &fs.PathError{Op: "read", Path: h.path, Err: syscall.EISDIR}
	}
	f := h.fs
	f.mu.Lock()
	defer f.mu.Unlock()
	f.Ops++
	if h.pos >= int64(len(h.ino.vol)) {
		return 0, io.EOF
	}
	n := copy(p, h.ino.vol[h.pos:])
	h.pos += int64(n)
	return n, nil
}

func (h *File) Seek(offset int64, whence int) (int64, error) {
	if h.closed {
		return 0, &fs.PathError{Op: "seek", Path: h.path, Err: fs.ErrClosed}
	}
	if h.isDir {
		return 0, nil
	}
	h.fs.mu.Lock()
	size := int64(len(h.ino.vol))
	h.fs.mu.Unlock()
	var np int64
	switch whence {
	case io.SeekStart:
		np = offset
	case io.SeekCurrent:
		np = h.pos + offset
	case io.SeekEnd:
		np = size + offset
	default:
		return 0, &fs.PathError{Op: "seek", Path: h.path, Err: syscall.EINVAL}
	}
	if np < 0 {
		return 0, &fs.PathError{Op: "seek", Path: h.path, Err: syscall.EINVAL}
	}
	h.pos = np
	return np, nil
}

// Sync makes the file's content (or, for a directory handle, the directory's entries) durable.
func (h *File) Sync() error {
	kind := "fsync"
	if h.isDir {
		kind = "fsyncdir"
	}
	d := gate(kind, filepath.Base(h.path))
	if h.closed {
		return &fs.PathError{Op: "sync", Path: h.path, Err: fs.ErrClosed}
	}
	if d.Fault == FaultEIO || d.Fault == FaultENOSPC {
		return injected("sync", h.path, d)
	}
	f := h.fs
	f.mu.Lock()
	defer f.mu.Unlock()
	f.Ops++
	if h.isDir {
		dd := f.dirs[h.path]
		if dd != nil {
			dd.dur = map[string]*inode{}
			for n, ino := range dd.vol {
				dd.dur[n] = ino
			}
			dd.pending = nil
			f.bump("fsyncdir")
		}
	} else {
		h.ino.dur = h.ino.vol
		h.ino.synced = true
		f.bump("fsync")
	}
	if d.Fault == FaultLateErr {
		return injected("sync", h.path, d)
	}
	return nil
}

func (h *File) Close() error {
	d := gate("close", filepath.Base(h.path))
	if h.closed {
		return &fs.PathError{Op: "close", Path: h.path, Err: fs.ErrClosed}
	}
	h.closed = true
	h.fs.mu.Lock()
	h.fs.Ops++
	h.fs.mu.Unlock()
	if d.Fault == FaultEIO || d.Fault == FaultLateErr {
		return injected("close", h.path, d)
	}
	return nil
}

func (h *File) Stat() (FileInfo, error) {
	if h.isDir {
		return fileInfo{name: filepath.Base(h.path), isDir: true}, nil
	}
	h.fs.mu.Lock()
	defer h.fs.mu.Unlock()
	return fileInfo{name: filepath.Base(h.path), size: int64(len(h.ino.vol))}, nil
}

func itoa(n int) string {
	if n == 0 {
		return "0"
	}
	neg := n < 0
	if neg {
		n = -n
	}
	var b [21]byte
	i := len(b)
	for n > 0 {
		i--
		b[i] = byte('0' + n%10)
		n /= 10
	}
	if neg {
		i--
		b[i] = '-'
	}
	return string(b[i:])
}

// ---- controller-side API: snapshots, crash images, direct inspection (never gated) ----

// VolatileImage returns a new FS holding what a process crash leaves behind: the running
// system's view (the OS survived), with everything considered durable.
func (f *FS) VolatileImage() *FS {
	f.mu.Lock()
	defer f.mu.Unlock()
	out := NewFS()
	out.nextIno = f.nextIno
	for p, d := range f.dirs {
		nd := &dir{vol: map[string]*inode{}, dur: map[string]*inode{}}
		for n, ino := range d.vol {
			c := &inode{id: ino.id, vol: ino.vol, dur: ino.vol, synced: true}
			nd.vol[n] = c
			nd.dur[n] = c
		}
		out.dirs[p] = nd
	}
	return out
}

// PendingDirOps returns, per directory, the number of not-yet-durable directory operations, and
// the number of files with un-fsynced data.
func (f *FS) PendingDirOps() (ops int, dirtyFiles int) {
	f.mu.Lock()
	defer f.mu.Unlock()
	seen := map[int]bool{}
	for _, d := range f.dirs {
		ops += len(d.pending)
		for _, ino := range d.vol {
			if !ino.synced && !seen[ino.id] {
				seen[ino.id] = true
				dirtyFiles++
			}
		}
	}
	return
}

// PowerLossImage returns what a power loss leaves behind. choose(n) returns a value in [0,n)
// and is called for every decision, in a deterministic order:
//
//   - per directory (sorted): how many of the pending directory operations, in order, reached
//     the disk — either a prefix (mode 0) or an arbitrary order-preserving subset (mode 1);
//   - per surviving file with un-fsynced data: durable content only / full volatile content /
//     a prefix of the un-fsynced tail / that prefix followed by zeros up to the volatile length.
func (f *FS) PowerLossImage(choose func(n int) int) (*FS, string) {
	f.mu.Lock()
	defer f.mu.Unlock()
	out := NewFS()
	out.nextIno = f.nextIno
	var desc []string
	inoByID := map[int]*inode{}
	for _, d := range f.dirs {
		for _, ino := range d.vol {
			inoByID[ino.id] = ino
		}
		for _, ino := range d.dur {
			inoByID[ino.id] = ino
		}
	}
	dirPaths := make([]string, 0, len(f.dirs))
	for p := range f.dirs {
		dirPaths = append(dirPaths, p)
	}
	sort.Strings(dirPaths)
	for _, p := range dirPaths {
		d := f.dirs[p]
		ents := map[string]int{}
		for n, ino := range d.dur {
			ents[n] = ino.id
		}
		if len(d.pending) > 0 {
			mode := choose(2)
			var applied []string
			k := 0
			if mode == 0 {
				k = choose(len(d.pending) + 1)
			}
			for i, op := range d.pending {
				take := false
				if mode == 0 {
					take = i < k
				} else {
					take = choose(2) == 1
				}
				if !take {
					continue
				}
				switch op.Kind {
				case "create":
					ents[op.Name] = op.Ino
				case "remove":
					if ents[op.Name] == op.Ino {
						delete(ents, op.Name)
					}
				case "rename":
					// A rename reaches the disk as one atomic change: the target name points at
					// the inode and the source name is gone.
					ents[op.To] = op.Ino
					if ents[op.Name] == op.Ino {
						delete(ents, op.Name)
					}
				}
				applied = append(applied, op.Kind+":"+op.Name)
			}
			desc = append(desc, "dirops "+itoa(len(applied))+"/"+itoa(len(d.pending))+"["+strings.Join(applied, ",")+"]")
		}
		nd := &dir{vol: map[string]*inode{}, dur: map[string]*inode{}}
		names := make([]string, 0, len(ents))
		for n := range ents {
			names = append(names, n)
		}
		sort.Strings(names)
		for _, n := range names {
			src := inoByID[ents[n]]
			if src == nil {
				continue
			}
			content := src.dur
			if !src.synced {
				switch choose(4) {
				case 0:
					content = src.dur
					desc = append(desc, n+":durable-only")
				case 1:
					content = src.vol
					desc = append(desc, n+":full")
				case 2:
					cut := len(src.dur)
					if len(src.vol) > cut {
						cut += choose(len(src.vol) - cut + 1)
					}
					if cut > len(src.vol) {
						cut = len(src.vol)
					}
					content = src.vol[:cut]
					desc = append(desc, n+":prefix"+itoa(cut))
				case 3:
					cut := len(src.dur)
					if len(src.vol) > cut {
						cut += choose(len(src.vol) - cut + 1)
					}
					if cut > len(src.vol) {
						cut = len(src.vol)
					}
					c := make([]byte, len(src.vol))
					copy(c, src.vol[:cut])
					content = c
					desc = append(desc, n+":prefix"+itoa(cut)+"+zeros")
				}
			}
			c := &inode{id: src.id, vol: content, dur: content, synced: true}
			nd.vol[n] = c
			nd.dur[n] = c
		}
		out.dirs[p] = nd
	}
	return out, strings.Join(desc, " ")
}

// Listing returns the volatile entries of a directory (name -> size), ungated.
func (f *FS) Listing(path string) map[string]int {
	f.mu.Lock()
	defer f.mu.Unlock()
	out := map[string]int{}
	if d := f.dirs[filepath.Clean(path)]; d != nil {
		for n, ino := range d.vol {
			out[n] = len(ino.vol)
		}
	}
	return out
}

// ReadFile returns the volatile content of a file, ungated.
func (f *FS) ReadFile(path string) ([]byte, bool) {
	f.mu.Lock()
	defer f.mu.Unlock()
	d, name := f.dirOf(filepath.Clean(path))
	if d == nil || d.vol[name] == nil {
		return nil, false
	}
	return append([]byte(nil), d.vol[name].vol...), true
}

// WriteFileRaw replaces a file's content in place (corruption injection), ungated; the new
// content counts as durable.
func (f *FS) WriteFileRaw(path string, content []byte) bool {
	f.mu.Lock()
	defer f.mu.Unlock()
	d, name := f.dirOf(filepath.Clean(path))
	if d == nil || d.vol[name] == nil {
		return false
	}
	c := append([]byte(nil), content...)
	d.vol[name].vol = c
	d.vol[name].dur = c
	d.vol[name].synced = true
	f.Version++
	return true
}

// Counters returns (version, ops) under the lock.
func (f *FS) Counters() (uint64, uint64) {
	f.mu.Lock()
	defer f.mu.Unlock()
	return f.Version, f.Ops
}

var _ = errors.New
