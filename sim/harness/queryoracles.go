package harness

import (
	bs "github.com/danthegoodman1/bloomsearch"
)

// Store-static versions of the C23 (statistics) and C24 (pruning) oracles, usable for queries that
// ran with faults, cancellation or Close (S-cursor): every clause names the executions it is
// held on.

type queryObs struct {
	Tag       string
	Q         *bs.Query
	Stats     bs.QueryStats
	Returned  map[string]int // _id -> times returned
	NReturned int
	Calls     []Call // store calls attributed to the query
	// Clean: Next reached false with Err()==nil, no fault on its calls, not cancelled, not closed.
	Clean bool
	// Uninterrupted: neither cancelled nor closed before Next returned false (faults allowed).
	Uninterrupted bool
}

// CheckStatsStatic applies C23 to one finished query against a census of an unchanging store.
func CheckStatsStatic(r *Run, o queryObs, census *Census) {
	var pf *bs.QueryPrefilter
	if o.Q != nil {
		pf = o.Q.Prefilter
	}
	stt := o.Stats
	seen := map[blockKey]bs.BlockStats{}
	var sumRows, sumBytes int64
	proc, skip := 0, 0
	for _, b := range stt.BlockStats {
		k := blockKey{string(b.FilePointer), b.BlockOffset}
		if _, dup := seen[k]; dup {
			r.Violate("C23", "block-listed-twice", "query %s lists block %v twice in its stats", o.Tag, k)
		}
		seen[k] = b
		if b.BloomFilterSkipped {
			skip++
			if b.RowsProcessed != 0 || b.BytesProcessed != 0 {
				r.Violate("C23", "skipped-block-has-work", "query %s: skipped block %v reports %d rows / %d bytes processed", o.Tag, k, b.RowsProcessed, b.BytesProcessed)
			}
		} else {
			proc++
		}
		sumRows += b.RowsProcessed
		sumBytes += b.BytesProcessed
	}
	if proc != stt.BlocksProcessed || skip != stt.BlocksSkipped {
		r.Violate("C23", "block-totals-mismatch", "query %s: BlocksProcessed=%d BlocksSkipped=%d but the per-block list has %d processed and %d skipped", o.Tag, stt.BlocksProcessed, stt.BlocksSkipped, proc, skip)
	}
	if sumRows != stt.RowsScanned || sumBytes != stt.BytesScanned {
		r.Violate("C23", "scan-totals-mismatch", "query %s: RowsScanned=%d BytesScanned=%d but per-block sums are %d / %d", o.Tag, stt.RowsScanned, stt.BytesScanned, sumRows, sumBytes)
	}
	if o.Clean && stt.RowsMatched != int64(o.NReturned) {
		r.Violate("C23", "rows-matched-mismatch", "query %s completed cleanly: RowsMatched=%d but %d rows were returned", o.Tag, stt.RowsMatched, o.NReturned)
	}
	for _, fv := range census.Files {
		if fv.Err != nil {
			continue
		}
		surv, listed := 0, 0
		for _, bv := range fv.Blocks {
			k := blockKey{fv.Ptr, bv.Meta.RowDataOffset}
			m := bv.Meta
			if bs.EvaluateDataBlockMetadata(&m, pf) {
				surv++
				if _, ok := seen[k]; ok {
					listed++
				}
			} else if _, ok := seen[k]; ok {
				r.Violate("C23", "pruned-block-listed", "query %s lists block %v which its prefilter rejects", o.Tag, k)
			}
			if s, ok := seen[k]; ok && !s.BloomFilterSkipped && o.Clean {
				if bv.Err == nil && s.RowsProcessed != int64(len(bv.Rows)) {
					r.Violate("C23", "rows-processed-mismatch", "query %s completed cleanly: block %v reports %d rows processed, it holds %d", o.Tag, k, s.RowsProcessed, len(bv.Rows))
				}
			}
			for _, id := range bv.IDs {
				if o.Returned[id] > 0 {
					if s, ok := seen[k]; !ok || s.BloomFilterSkipped {
						r.Violate("C23", "contributing-block-not-processed", "query %s returned row %s from block %v, which its stats do not list as processed", o.Tag, id, k)
					}
					break
				}
			}
		}
		if o.Uninterrupted && listed != 0 && listed != surv {
			r.Violate("C23", "file-partially-listed", "query %s (not cancelled, not closed) lists %d of the %d prefilter-surviving blocks of file %s", o.Tag, listed, surv, fv.Ptr)
		}
	}
	if len(stt.BlockStats) > 0 {
		r.NonTriv["C23"] = true
	}
}

// CheckPruningStatic applies C24 to one query's attributed store calls; every clause is a "never
// reads" safety statement and therefore holds with or without faults.
func CheckPruningStatic(r *Run, o queryObs, census *Census) {
	q := o.Q
	var pf *bs.QueryPrefilter
	var bloom *bs.BloomQuery
	var regex *bs.RegexQuery
	if q != nil {
		pf, bloom, regex = q.Prefilter, q.Bloom, q.Regex
	}
	hasBloom := bloom != nil && bloom.Expression != nil
	noConds := !hasBloom && (regex == nil || regex.Expression == nil)
	hasRegex := regex != nil && regex.Expression != nil
	// A block (or file) is ruled out when its filters exclude the bloom expression, or when they
	// exclude the existence of a field a regex condition needs (a regex on field F can only match
	// a row that has F): the documented field-existence guard.
	may := func(f *bs.BloomFilters) bool {
		if f == nil {
			return true
		}
		if hasBloom && !bloomMay(bloom.Expression, f) {
			return false
		}
		return true
	}
	opened := map[string]bool{}
	for _, c := range o.Calls {
		if c.Kind == "open" && c.Err == nil {
			opened[c.Ptr] = true
		}
	}
	for _, fv := range census.Files {
		if fv.Err != nil {
			continue
		}
		md := fv.Meta
		anySurv := false
		for _, bv := range fv.Blocks {
			m := bv.Meta
			if bs.EvaluateDataBlockMetadata(&m, pf) {
				anySurv = true
			}
		}
		if opened[fv.Ptr] && hasBloom && !bloomMay(bloom.Expression, &md.BloomFilters) { // files: the bloom expression only, as stated
			r.Violate("C24", "disqualified-file-opened", "query %s = %s opened file %s although its file-level filters rule the query out", o.Tag, describeQuery(q), fv.Ptr)
		}
		if opened[fv.Ptr] && !anySurv {
			r.Violate("C24", "prefiltered-file-opened", "query %s opened file %s although its prefilter rejects every block of it", o.Tag, fv.Ptr)
		}
		regionLo, regionHi := int64(md.BlockFilterRegionOffset), int64(md.BlockFilterRegionOffset+md.BlockFilterRegionSize)
		for _, c := range o.Calls {
			if c.Kind != "read" || c.Ptr != fv.Ptr || c.N == 0 {
				continue
			}
			lo, hi := c.Off, c.Off+int64(c.N)
			inRegion := lo >= regionLo && hi <= regionHi
			inBlock := false
			for _, bv := range fv.Blocks {
				blo, bhi := int64(bv.Meta.RowDataOffset), int64(bv.Meta.RowDataOffset+bv.Meta.RowDataSize)
				if lo >= blo && hi <= bhi {
					inBlock = true
				}
				if lo < bhi && blo < hi {
					m := bv.Meta
					if !bs.EvaluateDataBlockMetadata(&m, pf) {
						r.Violate("C24", "prefiltered-block-read", "query %s read [%d,%d) of %s, inside block@%d which its prefilter rejects", o.Tag, lo, hi, fv.Ptr, bv.Meta.RowDataOffset)
					} else if hasBloom && bv.Filters != nil && !may(bv.Filters) {
						r.Violate("C24", "bloom-pruned-block-read", "query %s = %s read [%d,%d) of %s, inside block@%d which its block filters rule out", o.Tag, describeQuery(q), lo, hi, fv.Ptr, bv.Meta.RowDataOffset)
					} else if hasRegex && bv.Filters != nil && !regexGuardMay(regex.Expression, bv.Filters) {
						r.Violate("C24", "regex-guard-pruned-block-read", "query %s = %s read [%d,%d) of %s, inside block@%d whose field filter rules out a field its regex needs", o.Tag, describeQuery(q), lo, hi, fv.Ptr, bv.Meta.RowDataOffset)
					}
				}
			}
			if !inRegion && !inBlock {
				r.Violate("C24", "read-outside-declared-extents", "query %s read [%d,%d) of %s, which lies in neither a row data extent nor the block filter region [%d,%d)", o.Tag, lo, hi, fv.Ptr, regionLo, regionHi)
			}
			if inRegion && noConds && hi > lo {
				r.Violate("C24", "filter-region-read-without-conditions", "query %s has no bloom or regex conditions but read [%d,%d) of %s's block filter region", o.Tag, lo, hi, fv.Ptr)
			}
		}
	}
	if len(o.Calls) > 0 {
		r.NonTriv["C24"] = true
	}
}
