package harness

import (
	"bytes"
	"encoding/json"
	"fmt"
	"math"
	"math/big"
	"reflect"
	"regexp"
	"sort"
	"strings"

	bs "github.com/danthegoodman1/bloomsearch"
)

// The row/query semantics oracle ("Spec", DESIGN.md §4.1). It is written from the README's
// "Search semantics" and the doc comments of Field/FieldToken/FieldRegex, over encoding/json's
// token stream — not gjson, not the package's walkers — so that a change made identically to
// the engine's ingest-side and query-side walkers is still visible.

type SpecLeaf struct {
	Path string
	Text string
}

type SpecRow struct {
	Raw         []byte
	Fields      map[string]bool
	Leaves      []SpecLeaf
	Tokens      map[string]bool
	FieldTokens map[string]bool // "path\x00token"
	JoinedFT    map[string]bool // "path::token" (the documented filter entry format)
	Err         error
}

const specDelim = "."

// BuildSpecRow enumerates a marshaled row.
func BuildSpecRow(raw []byte, tokenizer func(string) []string) *SpecRow {
	sr := &SpecRow{Raw: raw, Fields: map[string]bool{}, Tokens: map[string]bool{}, FieldTokens: map[string]bool{}, JoinedFT: map[string]bool{}}
	dec := json.NewDecoder(bytes.NewReader(raw))
	dec.UseNumber()
	if err := sr.walk(dec, ""); err != nil {
		sr.Err = err
		return sr
	}
	for _, l := range sr.Leaves {
		for _, tok := range tokenizer(l.Text) {
			sr.Tokens[tok] = true
			sr.FieldTokens[l.Path+"\x00"+tok] = true
			sr.JoinedFT[l.Path+"::"+tok] = true
		}
	}
	return sr
}

func (sr *SpecRow) walk(dec *json.Decoder, path string) error {
	tok, err := dec.Token()
	if err != nil {
		return err
	}
	switch v := tok.(type) {
	case json.Delim:
		switch v {
		case '{':
			if path != "" {
				sr.Fields[path] = true
			}
			for dec.More() {
				kt, err := dec.Token()
				if err != nil {
					return err
				}
				key, ok := kt.(string)
				if !ok {
					return fmt.Errorf("spec: non-string key %v", kt)
				}
				// Every delimiter-split proper prefix of the key is a field entry.
				for i := 0; i+len(specDelim) <= len(key); i++ {
					if key[i:i+len(specDelim)] == specDelim {
						pp := key[:i]
						if path != "" {
							pp = path + specDelim + pp
						}
						if pp != "" {
							sr.Fields[pp] = true
						}
					}
				}
				child := key
				if path != "" {
					child = path + specDelim + key
				}
				if err := sr.walk(dec, child); err != nil {
					return err
				}
			}
			_, err := dec.Token() // '}'
			return err
		case '[':
			if path != "" {
				sr.Fields[path] = true
			}
			for dec.More() {
				if err := sr.walk(dec, path); err != nil {
					return err
				}
			}
			_, err := dec.Token() // ']'
			return err
		}
		return fmt.Errorf("spec: unexpected delimiter %v", v)
	case string:
		if path != "" {
			sr.Fields[path] = true
			sr.Leaves = append(sr.Leaves, SpecLeaf{path, v})
		}
	case json.Number:
		if path != "" {
			sr.Fields[path] = true
			sr.Leaves = append(sr.Leaves, SpecLeaf{path, v.String()})
		}
	case bool:
		if path != "" {
			sr.Fields[path] = true
			if v {
				sr.Leaves = append(sr.Leaves, SpecLeaf{path, "true"})
			} else {
				sr.Leaves = append(sr.Leaves, SpecLeaf{path, "false"})
			}
		}
	case nil:
		if path != "" {
			sr.Fields[path] = true
		}
	}
	return nil
}

// SpecDefaultTokenizer is the documented default: split on whitespace, lower-case.
func SpecDefaultTokenizer(text string) []string { return strings.Fields(strings.ToLower(text)) }

// ---- expression evaluation ----

func (sr *SpecRow) MatchBloom(e *bs.BloomExpression) bool {
	if e == nil {
		return true
	}
	switch e.ExpressionType {
	case bs.BloomExpressionCondition:
		c := e.Condition
		if c == nil {
			return true
		}
		switch c.Type {
		case bs.BloomField:
			return c.Field != "" && sr.Fields[c.Field]
		case bs.BloomToken:
			return sr.Tokens[c.Token]
		case bs.BloomFieldToken:
			return c.Field != "" && sr.FieldTokens[c.Field+"\x00"+c.Token]
		}
		return false
	case bs.BloomExpressionOr:
		for i := range e.Children {
			if sr.MatchBloom(&e.Children[i]) {
				return true
			}
		}
		return false
	case bs.BloomExpressionAnd:
		for i := range e.Children {
			if !sr.MatchBloom(&e.Children[i]) {
				return false
			}
		}
		return true
	}
	return false
}

func (sr *SpecRow) MatchRegex(e *bs.RegexExpression, cache map[string]*regexp.Regexp) bool {
	if e == nil {
		return true
	}
	switch e.ExpressionType {
	case bs.RegexExpressionCondition:
		c := e.Condition
		if c == nil {
			return true
		}
		if c.Field == "" {
			return false
		}
		re := cache[c.Pattern]
		if re == nil {
			re = regexp.MustCompile(c.Pattern)
			cache[c.Pattern] = re
		}
		prefix := c.Field + specDelim
		for _, l := range sr.Leaves {
			if l.Path == c.Field || strings.HasPrefix(l.Path, prefix) {
				if re.MatchString(l.Text) {
					return true
				}
			}
		}
		return false
	case bs.RegexExpressionOr:
		for i := range e.Children {
			if sr.MatchRegex(&e.Children[i], cache) {
				return true
			}
		}
		return false
	case bs.RegexExpressionAnd:
		for i := range e.Children {
			if !sr.MatchRegex(&e.Children[i], cache) {
				return false
			}
		}
		return true
	}
	return false
}

// MatchQuery is the row-level verdict: bloom ∧ regex.
func (sr *SpecRow) MatchQuery(q *bs.Query, cache map[string]*regexp.Regexp) bool {
	if q == nil {
		return true
	}
	if q.Bloom != nil && !sr.MatchBloom(q.Bloom.Expression) {
		return false
	}
	if q.Regex != nil && !sr.MatchRegex(q.Regex.Expression, cache) {
		return false
	}
	return true
}

// ---- prefilter semantics ----

// numExact converts a Go numeric value (any integer or float kind, including named types) to an
// exact big.Float. ok=false for non-numeric values and NaN.
func numExact(v any) (f *big.Float, ok bool) {
	if v == nil {
		return nil, false
	}
	rv := reflect.ValueOf(v)
	switch rv.Kind() {
	case reflect.Int, reflect.Int8, reflect.Int16, reflect.Int32, reflect.Int64:
		return new(big.Float).SetPrec(128).SetInt64(rv.Int()), true
	case reflect.Uint, reflect.Uint8, reflect.Uint16, reflect.Uint32, reflect.Uint64, reflect.Uintptr:
		return new(big.Float).SetPrec(128).SetUint64(rv.Uint()), true
	case reflect.Float32, reflect.Float64:
		x := rv.Float()
		if math.IsNaN(x) {
			return nil, false
		}
		if math.IsInf(x, 0) {
			return new(big.Float).SetInf(x < 0), true
		}
		return new(big.Float).SetPrec(128).SetFloat64(x), true
	}
	return nil, false
}

func bigI(x int64) *big.Float { return new(big.Float).SetPrec(128).SetInt64(x) }

// numCondOnValue evaluates a numeric condition on one exact value.
func numCondOnValue(v *big.Float, c bs.NumericCondition) bool {
	switch c.Operator {
	case bs.OpEqual:
		return v.Cmp(bigI(c.Value)) == 0
	case bs.OpNotEqual:
		return v.Cmp(bigI(c.Value)) != 0
	case bs.OpGreaterThan:
		return v.Cmp(bigI(c.Value)) > 0
	case bs.OpGreaterThanEqual:
		return v.Cmp(bigI(c.Value)) >= 0
	case bs.OpLessThan:
		return v.Cmp(bigI(c.Value)) < 0
	case bs.OpLessThanEqual:
		return v.Cmp(bigI(c.Value)) <= 0
	case bs.OpIn:
		for _, x := range c.Values {
			if v.Cmp(bigI(x)) == 0 {
				return true
			}
		}
		return false
	case bs.OpNotIn:
		for _, x := range c.Values {
			if v.Cmp(bigI(x)) == 0 {
				return false
			}
		}
		return true
	case bs.OpBetween:
		return v.Cmp(bigI(c.Min)) >= 0 && v.Cmp(bigI(c.Max)) <= 0
	case bs.OpNotBetween:
		return v.Cmp(bigI(c.Min)) < 0 || v.Cmp(bigI(c.Max)) > 0
	}
	return false
}

func strCond(v string, c bs.StringCondition) bool {
	switch c.Operator {
	case bs.OpEqual:
		return v == c.Value
	case bs.OpNotEqual:
		return v != c.Value
	case bs.OpGreaterThan:
		return v > c.Value
	case bs.OpGreaterThanEqual:
		return v >= c.Value
	case bs.OpLessThan:
		return v < c.Value
	case bs.OpLessThanEqual:
		return v <= c.Value
	case bs.OpIn:
		for _, x := range c.Values {
			if v == x {
				return true
			}
		}
		return false
	case bs.OpNotIn:
		for _, x := range c.Values {
			if v == x {
				return false
			}
		}
		return true
	case bs.OpBetween:
		return v >= c.Min && v <= c.Max
	case bs.OpNotBetween:
		return v < c.Min || v > c.Max
	}
	return false
}

// prefilterEval evaluates a prefilter tree given a leaf evaluator (documented tree semantics:
// nil expression / nil condition true, empty OR false, unknown types false).
func prefilterEval(e *bs.PrefilterExpression, leaf func(c *bs.PrefilterCondition) bool) bool {
	if e == nil {
		return true
	}
	switch e.ExpressionType {
	case bs.PrefilterExpressionCondition:
		if e.Condition == nil {
			return true
		}
		return leaf(e.Condition)
	case bs.PrefilterExpressionOr:
		for i := range e.Children {
			if prefilterEval(&e.Children[i], leaf) {
				return true
			}
		}
		return false
	case bs.PrefilterExpressionAnd:
		for i := range e.Children {
			if !prefilterEval(&e.Children[i], leaf) {
				return false
			}
		}
		return true
	}
	return false
}

// RowSatisfiesPrefilter: the row's own partition id and own exact indexed values satisfy the
// prefilter. indexed maps minmax key -> the row's Go value for that key, only for keys that were
// configured as minmax indexes when the row was ingested and whose value is numeric and non-NaN.
func RowSatisfiesPrefilter(pf *bs.QueryPrefilter, pid string, indexed map[string]any) bool {
	if pf == nil || pf.Expression == nil {
		return true
	}
	return prefilterEval(pf.Expression, func(c *bs.PrefilterCondition) bool {
		switch c.ConditionType {
		case bs.PrefilterConditionPartition:
			if c.PartitionCondition == nil {
				return true
			}
			return pid != "" && strCond(pid, *c.PartitionCondition)
		case bs.PrefilterConditionMinMax:
			if c.MinMaxCondition == nil {
				return true
			}
			v, ok := indexed[c.MinMaxFieldName]
			if !ok {
				return false
			}
			f, ok := numExact(v)
			if !ok {
				return false
			}
			return numCondOnValue(f, *c.MinMaxCondition)
		}
		return false
	})
}

// rangeMaySatisfy: does some value in the block's recorded range satisfy c, a bound stored at an
// int64 extreme meaning "open-ended" (semantic definition of block-level overlap; written
// independently of EvaluateMinMaxCondition).
func rangeMaySatisfy(r bs.MinMaxIndex, c bs.NumericCondition) bool {
	openHi := r.Max == math.MaxInt64
	openLo := r.Min == math.MinInt64
	contains := func(x int64) bool { return r.Min <= x && x <= r.Max }
	switch c.Operator {
	case bs.OpEqual:
		return contains(c.Value)
	case bs.OpNotEqual:
		return !(r.Min == c.Value && r.Max == c.Value) || openHi || openLo
	case bs.OpGreaterThan:
		return r.Max > c.Value || openHi
	case bs.OpGreaterThanEqual:
		return r.Max >= c.Value
	case bs.OpLessThan:
		return r.Min < c.Value || openLo
	case bs.OpLessThanEqual:
		return r.Min <= c.Value
	case bs.OpIn:
		for _, x := range c.Values {
			if contains(x) {
				return true
			}
		}
		return false
	case bs.OpNotIn:
		// Some value of the range is outside the set: true unless the (finite, closed) range is
		// entirely covered by the set.
		if openHi || openLo {
			return true
		}
		set := map[int64]bool{}
		for _, x := range c.Values {
			set[x] = true
		}
		if r.Max-r.Min >= 0 && uint64(r.Max-r.Min) < 4096 {
			for x := r.Min; ; x++ {
				if !set[x] {
					return true
				}
				if x == r.Max {
					break
				}
			}
			return false
		}
		return true
	case bs.OpBetween:
		return r.Min <= c.Max && c.Min <= r.Max
	case bs.OpNotBetween:
		return r.Min < c.Min || r.Max > c.Max || openHi || openLo
	}
	return false
}

// BlockLower: the block's metadata satisfies the prefilter under the documented semantics
// (strict: missing partition id / missing minmax key makes that condition false).
func BlockLower(pf *bs.QueryPrefilter, b *bs.DataBlockMetadata) bool {
	if pf == nil || pf.Expression == nil {
		return true
	}
	return prefilterEval(pf.Expression, func(c *bs.PrefilterCondition) bool {
		switch c.ConditionType {
		case bs.PrefilterConditionPartition:
			if c.PartitionCondition == nil {
				return true
			}
			return b.PartitionID != "" && strCond(b.PartitionID, *c.PartitionCondition)
		case bs.PrefilterConditionMinMax:
			if c.MinMaxCondition == nil {
				return true
			}
			r, ok := b.MinMaxIndexes[c.MinMaxFieldName]
			return ok && rangeMaySatisfy(r, *c.MinMaxCondition)
		}
		return false
	})
}

// BlockUpper: the prefilter is satisfiable for the block when every condition whose metadata is
// present is assumed true and every condition whose metadata is missing is false.
func BlockUpper(pf *bs.QueryPrefilter, b *bs.DataBlockMetadata) bool {
	if pf == nil || pf.Expression == nil {
		return true
	}
	return prefilterEval(pf.Expression, func(c *bs.PrefilterCondition) bool {
		switch c.ConditionType {
		case bs.PrefilterConditionPartition:
			if c.PartitionCondition == nil {
				return true
			}
			return b.PartitionID != ""
		case bs.PrefilterConditionMinMax:
			if c.MinMaxCondition == nil {
				return true
			}
			_, ok := b.MinMaxIndexes[c.MinMaxFieldName]
			return ok
		}
		return false
	})
}

// expectedRange is floor(v)..ceil(v) clamped to int64, computed exactly.
func expectedRange(v any) (lo, hi int64, ok bool) {
	f, ok := numExact(v)
	if !ok {
		return 0, 0, false
	}
	clamp := func(x *big.Float) int64 {
		if x.IsInf() {
			if x.Signbit() {
				return math.MinInt64
			}
			return math.MaxInt64
		}
		if x.Cmp(bigI(math.MaxInt64)) >= 0 {
			return math.MaxInt64
		}
		if x.Cmp(bigI(math.MinInt64)) <= 0 {
			return math.MinInt64
		}
		i, _ := x.Int64()
		return i
	}
	if f.IsInf() {
		c := clamp(f)
		return c, c, true
	}
	if f.IsInt() {
		c := clamp(f)
		return c, c, true
	}
	// Non-integer: floor and ceil.
	i := new(big.Int)
	f.Int(i) // truncates toward zero
	t := new(big.Float).SetPrec(128).SetInt(i)
	var fl, ce *big.Float
	if f.Sign() >= 0 {
		fl = t
		ce = new(big.Float).SetPrec(128).Add(t, big.NewFloat(1))
	} else {
		ce = t
		fl = new(big.Float).SetPrec(128).Sub(t, big.NewFloat(1))
	}
	return clamp(fl), clamp(ce), true
}

func sortedKeys[V any](m map[string]V) []string {
	out := make([]string, 0, len(m))
	for k := range m {
		out = append(out, k)
	}
	sort.Strings(out)
	return out
}
