// Package harness is the DetSim harness: tapes, the controller loop, the seams (SimDisk,
// SimMeta), reference models, scenarios and oracles (DESIGN.md §2–§6). It is compiled only into
// the simulation test binary, together with the instrumented scratch copy of bloomsearch.
package harness

import (
	"context"
	"crypto/sha256"
	"encoding/hex"
	"fmt"
	"math/rand/v2"
	"sort"
	"strings"
	"sync"
	"testing/synctest"
	"time"

	"verifsim/simrt"
)

// ---------------------------------------------------------------------------------------------
// Tapes (DESIGN.md §3.1)

// Tape is a stream of small integers. In generation mode values come from a PRNG and are
// recorded; in replay mode they are read back, and reads past the end return 0.
type Tape struct {
	Vals []uint32
	pos  int
	rng  *rand.Rand
}

func NewGenTape(seed uint64, stream uint64) *Tape {
	return &Tape{rng: rand.New(rand.NewPCG(seed, stream))}
}

func NewReplayTape(vals []uint32) *Tape { return &Tape{Vals: append([]uint32(nil), vals...)} }

// Draw returns a value in [0,n). n <= 1 consumes nothing and returns 0.
func (t *Tape) Draw(n int) int {
	if n <= 1 {
		return 0
	}
	var v uint32
	switch {
	case t.pos < len(t.Vals):
		v = t.Vals[t.pos] % uint32(n)
	case t.rng != nil:
		v = uint32(t.rng.IntN(n))
		t.Vals = append(t.Vals, v)
	default:
		v = 0
	}
	t.pos++
	return int(v)
}

// Chance returns true with probability permille/1000; a tape value of 0 always means false.
func (t *Tape) Chance(permille int) bool {
	if permille <= 0 {
		return false
	}
	return t.Draw(1000) >= 1000-permille
}

func (t *Tape) Bool() bool { return t.Draw(2) == 1 }

// Range returns a value in [lo,hi].
func (t *Tape) Range(lo, hi int) int {
	if hi <= lo {
		return lo
	}
	return lo + t.Draw(hi-lo+1)
}

func (t *Tape) Pos() int { return t.pos }

// Used returns the recorded values actually consumed.
func (t *Tape) Used() []uint32 {
	n := t.pos
	if n > len(t.Vals) {
		n = len(t.Vals)
	}
	return append([]uint32(nil), t.Vals[:n]...)
}

// ---------------------------------------------------------------------------------------------
// Violations, events

type Violation struct {
	Prop string `json:"prop"`
	Kind string `json:"kind"`
	Msg  string `json:"msg"`
	Step int    `json:"step"`
}

type event struct {
	step  int
	actor string
	seq   int
	text  string
}

// Fault codes delivered to seams in simrt.Decision.Fault.
const (
	FNone    = 0
	FErr     = 1 // the call fails with an injected error and has no effect
	FShort   = 2 // short write (with error) / short read (legal, no error)
	FLateErr = 3 // the call's effect happens, then it reports an error
	FCtx     = 4 // the call returns its ctx error (ctx-honouring store released after cancellation)
	FCorrupt = 5 // a read succeeds but one byte of what it returns is flipped (silent corruption in flight)
	fStall   = 9 // controller-internal: do not release
)

// FaultPolicy says which gate kinds may fail in this run and how often.
type FaultPolicy struct {
	ErrPermille     map[string]int // gate kind -> permille of calls failing (FErr)
	CorruptPermille int            // ds.read: permille of reads returning one flipped byte (FCorrupt)
	ShortPermille   int            // ds.write / ds.read short transfers
	LatePermille    int            // ds.wclose late error
	StallPermille   int            // any seam gate: stall
	StallForever    bool           // stalls never end on their own
	HonorCtx        bool           // stores return ctx.Err() when released with a cancelled ctx
	MaxFaults       int            // at most this many injected faults per run (0 = unlimited)
	Off             bool           // no faults at all (fault tape is not consulted)
}

// Run is one simulated execution.
type Run struct {
	Seed     int64
	Scenario string
	W, S, F  *Tape

	Step      int
	MaxSteps  int
	Start     time.Time
	Faults    FaultPolicy
	FaultsOff bool // set during liveness phases: no new faults

	mu       sync.Mutex
	events   []event
	seqs     map[string]int
	sched    []string // decision log
	Viol     []Violation
	FaultCt  map[string]int
	Probes   map[string]int
	NonTriv  map[string]bool
	Samples  []any
	MetaInjs []*InjErr
	Budget   bool // step or time budget hit (inconclusive run, never a violation)
	Fatal    bool // a goroutine of the system under test panicked
	Dirty    bool

	// Scheduling policy (drawn from the schedule tape).
	chooser     int
	stickyQ     int
	lastActor   string
	prio        map[string]int
	changePts   map[int]bool
	starve      string
	clockProb   int  // permille chance of a clock advance at a step with enabled actions
	FairNoClock bool // C10 mode: never advance the clock while anything is enabled
	nFaults     int

	// Hooks.
	OnStep   func()                                 // invariants, channel polling — runs while everything is quiescent
	OnIdle   func(now time.Time)                    // nothing is enabled: every runnable actor has run
	OnPick   func()                                 // before each scheduling choice (controller-side events)
	Prefer   func(en []*simrt.Parked) *simrt.Parked // optional bias: return the gate to release next, or nil
	LastKind string                                 // kind of the gate released in the previous step
	OnClock  func(before, after time.Time)          // called around clock advances
	Keep     bool                                   // keep trace

	// Fault enumeration (C06/C13/C15): one fault at the EnumPos-th seam call made while
	// EnumActive is set by the scenario.
	EnumOn      bool
	EnumActive  bool
	EnumPos     int
	EnumVariant int
	EnumCount   int
	EnumKinds   []string

	// Targeted stall: the StallAtNth-th release of a gate of kind StallAtKind stalls forever.
	StallAtKind string
	StallAtNth  int
	kindCount   map[string]int
}

func NewRun(seed int64, scenario string, w, s, f *Tape) *Run {
	return &Run{
		Seed: seed, Scenario: scenario, W: w, S: s, F: f,
		MaxSteps: 40000,
		seqs:     map[string]int{}, FaultCt: map[string]int{}, Probes: map[string]int{}, NonTriv: map[string]bool{},
		prio: map[string]int{}, changePts: map[int]bool{},
	}
}

// noteMetaInj records an error injected at a MetaStore seam (Site starts with the operation tag).
func (r *Run) noteMetaInj(e *InjErr) {
	r.mu.Lock()
	r.MetaInjs = append(r.MetaInjs, e)
	r.mu.Unlock()
}

// MetaInjsFor returns the MetaStore injections whose site begins with tag.
func (r *Run) MetaInjsFor(tag string) []*InjErr {
	r.mu.Lock()
	defer r.mu.Unlock()
	var out []*InjErr
	for _, e := range r.MetaInjs {
		if e.Site == tag || strings.HasPrefix(e.Site, tag+" ") {
			out = append(out, e)
		}
	}
	return out
}

func (r *Run) Now() time.Time { return time.Now() }

// SimMillis is simulated time elapsed since the run started.
func (r *Run) SimMillis() int64 { return time.Since(r.Start).Milliseconds() }

// Logf records an event for the calling actor, stamped with the current step.
func (r *Run) Logf(format string, a ...any) {
	actor := simrt.Name()
	r.mu.Lock()
	r.seqs[actor]++
	r.events = append(r.events, event{r.Step, actor, r.seqs[actor], fmt.Sprintf(format, a...)})
	r.mu.Unlock()
}

func (r *Run) Probe(name string) {
	r.mu.Lock()
	r.Probes[name]++
	r.mu.Unlock()
}

func (r *Run) ProbeN(name string, n int) {
	r.mu.Lock()
	r.Probes[name] += n
	r.mu.Unlock()
}

func (r *Run) Violate(prop, kind, format string, a ...any) {
	msg := fmt.Sprintf(format, a...)
	r.mu.Lock()
	for _, v := range r.Viol {
		if v.Prop == prop && v.Kind == kind {
			r.mu.Unlock()
			return // one per (property, kind) per run is enough
		}
	}
	r.Viol = append(r.Viol, Violation{prop, kind, msg, r.Step})
	r.mu.Unlock()
	r.Logf("VIOLATION %s/%s: %s", prop, kind, msg)
}

func (r *Run) HasViolation() bool {
	r.mu.Lock()
	defer r.mu.Unlock()
	return len(r.Viol) > 0
}

// Trace returns the canonical event log: events merged by (step, actor, per-actor sequence).
func (r *Run) Trace() []string {
	r.mu.Lock()
	evs := append([]event(nil), r.events...)
	r.mu.Unlock()
	sort.SliceStable(evs, func(i, j int) bool {
		if evs[i].step != evs[j].step {
			return evs[i].step < evs[j].step
		}
		if evs[i].actor != evs[j].actor {
			return evs[i].actor < evs[j].actor
		}
		return evs[i].seq < evs[j].seq
	})
	out := make([]string, len(evs))
	for i, e := range evs {
		out[i] = fmt.Sprintf("[%d] %s: %s", e.step, e.actor, e.text)
	}
	return out
}

func (r *Run) Digest() string {
	h := sha256.New()
	for _, l := range r.Trace() {
		h.Write([]byte(l))
		h.Write([]byte{'\n'})
	}
	return hex.EncodeToString(h.Sum(nil))[:16]
}

func (r *Run) SchedDigest() string {
	h := sha256.New()
	for _, l := range r.sched {
		h.Write([]byte(l))
		h.Write([]byte{'\n'})
	}
	return hex.EncodeToString(h.Sum(nil))[:16]
}

func (r *Run) SchedLog() []string { return r.sched }

// ---------------------------------------------------------------------------------------------
// Scheduling policy

const (
	chUniform = iota
	chSticky
	chPCT
	chStarve
	chFirst
)

// SetupPolicy draws the scheduling policy from the schedule tape.
func (r *Run) SetupPolicy(fineAllowed bool, expectedSteps int) (fine bool) {
	s := r.S
	r.chooser = s.Draw(5)
	r.stickyQ = 500 + s.Draw(450)
	if r.chooser == chPCT {
		d := 1 + s.Draw(3)
		for i := 0; i < d; i++ {
			r.changePts[1+s.Draw(expectedSteps)] = true
		}
	}
	r.clockProb = []int{0, 10, 40, 120}[s.Draw(4)]
	if fineAllowed {
		fine = s.Draw(3) != 0
	}
	return fine
}

func (r *Run) choose(en []*simrt.Parked) *simrt.Parked {
	if len(en) == 1 {
		r.S.Draw(1)
		return en[0]
	}
	switch r.chooser {
	case chSticky:
		if r.lastActor != "" {
			for _, p := range en {
				if p.Actor == r.lastActor {
					if r.S.Chance(r.stickyQ) {
						return p
					}
					break
				}
			}
		}
	case chPCT:
		if r.changePts[r.Step] && r.lastActor != "" {
			r.prio[r.lastActor] = -r.Step
		}
		best := -1
		for i, p := range en {
			if _, ok := r.prio[p.Actor]; !ok {
				r.prio[p.Actor] = 1 + r.S.Draw(1000)
			}
			if best < 0 || r.prio[p.Actor] > r.prio[en[best].Actor] {
				best = i
			}
		}
		return en[best]
	case chStarve:
		if r.starve == "" {
			r.starve = en[r.S.Draw(len(en))].Actor
		}
		var others []*simrt.Parked
		for _, p := range en {
			if p.Actor != r.starve {
				others = append(others, p)
			}
		}
		if len(others) > 0 {
			return others[r.S.Draw(len(others))]
		}
	case chFirst:
		// Mostly first-enabled (few preemptions), occasionally random.
		if !r.S.Chance(150) {
			return en[0]
		}
	}
	return en[r.S.Draw(len(en))]
}

// ---------------------------------------------------------------------------------------------
// Fault decisions

func isSeamKind(kind string) bool {
	return strings.HasPrefix(kind, "ds.") || strings.HasPrefix(kind, "ms.") || strings.HasPrefix(kind, "os.")
}

// decideFault consults the fault tape for a seam gate about to be released.
func (r *Run) decideFault(p *simrt.Parked) simrt.Decision {
	if r.Faults.HonorCtx && p.Ctx != nil && p.Ctx.Err() != nil && (strings.HasPrefix(p.Kind, "ds.") || strings.HasPrefix(p.Kind, "ms.")) {
		return simrt.Decision{Fault: FCtx}
	}
	if r.FaultsOff || !isSeamKind(p.Kind) {
		return simrt.Decision{}
	}
	if p.Note == 1 { // was stalled once already: let it through unharmed
		return simrt.Decision{}
	}
	if r.EnumOn {
		// Fault enumeration: exactly one fault, at the EnumPos-th seam call of the enumerated
		// phase (the reference execution counts the calls with EnumPos out of range).
		if !r.EnumActive {
			return simrt.Decision{}
		}
		idx := r.EnumCount
		r.EnumCount++
		r.EnumKinds = append(r.EnumKinds, p.Kind)
		if idx != r.EnumPos {
			return simrt.Decision{}
		}
		f := FErr
		switch r.EnumVariant {
		case 1:
			if p.Kind == "ds.write" || p.Kind == "ds.read" || p.Kind == "os.write" {
				f = FShort
			} else if p.Kind == "ds.wclose" || p.Kind == "os.rename" || p.Kind == "os.fsyncdir" {
				f = FLateErr
			}
		}
		name := map[int]string{FErr: "err", FShort: "short", FLateErr: "late-err"}[f]
		r.countFault(name + ":" + p.Kind)
		return simrt.Decision{Fault: f, Arg: int64(3 + idx)}
	}
	if r.StallAtKind != "" && p.Kind == r.StallAtKind {
		if r.kindCount == nil {
			r.kindCount = map[string]int{}
		}
		r.kindCount[p.Kind]++
		if r.kindCount[p.Kind] == r.StallAtNth {
			r.countFault("stall:" + p.Kind)
			return simrt.Decision{Fault: fStall}
		}
	}
	if r.Faults.Off {
		return simrt.Decision{}
	}
	if r.Faults.MaxFaults > 0 && r.nFaults >= r.Faults.MaxFaults {
		// Keep tape alignment: still consume the two draws.
		r.F.Draw(1000)
		r.F.Draw(64)
		return simrt.Decision{}
	}
	x := r.F.Draw(1000)
	y := r.F.Draw(64)
	if x == 0 {
		return simrt.Decision{}
	}
	top := 1000
	// Bands from the top of the range: err, short, late, stall.
	band := func(permille int) bool {
		lo := top - permille
		hit := permille > 0 && x >= lo && x < top
		top = lo
		return hit
	}
	if band(r.Faults.ErrPermille[p.Kind]) {
		r.countFault("err:" + p.Kind)
		return simrt.Decision{Fault: FErr, Arg: int64(y)}
	}
	if (p.Kind == "ds.write" || p.Kind == "ds.read" || p.Kind == "os.write") && band(r.Faults.ShortPermille) {
		r.countFault("short:" + p.Kind)
		return simrt.Decision{Fault: FShort, Arg: int64(y)}
	}
	if p.Kind == "ds.read" && band(r.Faults.CorruptPermille) {
		r.countFault("corrupt:" + p.Kind)
		return simrt.Decision{Fault: FCorrupt, Arg: int64(y)}
	}
	if (p.Kind == "ds.wclose" || p.Kind == "os.rename" || p.Kind == "os.fsyncdir") && band(r.Faults.LatePermille) {
		r.countFault("late-err:" + p.Kind)
		return simrt.Decision{Fault: FLateErr}
	}
	if band(r.Faults.StallPermille) {
		r.countFault("stall:" + p.Kind)
		return simrt.Decision{Fault: fStall, Arg: int64(y)}
	}
	return simrt.Decision{}
}

func (r *Run) countFault(kind string) {
	r.nFaults++
	r.mu.Lock()
	r.FaultCt[kind]++
	r.mu.Unlock()
}

// ---------------------------------------------------------------------------------------------
// The controller loop (DESIGN.md §2.4)

func (r *Run) enabled(ps []*simrt.Parked) []*simrt.Parked {
	now := time.Now().UnixNano()
	out := ps[:0:0]
	for _, p := range ps {
		if p.StallUntil != 0 {
			ctxDone := r.Faults.HonorCtx && p.Ctx != nil && p.Ctx.Err() != nil
			if !ctxDone && (p.StallUntil < 0 || now < p.StallUntil) {
				continue
			}
		}
		out = append(out, p)
	}
	return out
}

// UnstallAll ends every stall (used when faults stop).
func (r *Run) UnstallAll() {
	for _, p := range simrt.ParkedList() {
		if p.StallUntil != 0 {
			p.StallUntil = 0
			p.Note = 1
		}
	}
}

var clockSteps = []time.Duration{time.Millisecond, 10 * time.Millisecond, 50 * time.Millisecond, 100 * time.Millisecond, 101 * time.Millisecond, 250 * time.Millisecond, time.Second, 3 * time.Second}

// Advance moves the simulated clock by d (timers due in that window fire and the goroutines they
// wake run until they block again).
func (r *Run) Advance(d time.Duration) {
	before := time.Now()
	if r.OnClock != nil {
		r.OnClock(before, before.Add(d))
	}
	r.sched = append(r.sched, fmt.Sprintf("%d clock+%s", r.Step, d))
	r.Logf("clock +%s", d)
	time.Sleep(d)
}

// Loop runs controller steps until done() reports true at a point where nothing is enabled, or a
// budget is hit. idleLimit bounds the simulated time the loop may spend with nothing enabled.
func (r *Run) Loop(done func() bool, idleLimit time.Duration) {
	var idle time.Duration
	for {
		synctest.Wait()
		if r.OnStep != nil {
			r.OnStep() // still stamped with the step whose effects it observes
		}
		r.Step++
		if r.Fatal {
			r.Budget = true // no further verdicts from this run; the panic itself is the violation
			return
		}
		if r.Step > r.MaxSteps {
			r.Budget = true
			r.Logf("step budget exhausted")
			return
		}
		ps := simrt.ParkedList()
		en := r.enabled(ps)
		if len(en) == 0 {
			if r.OnIdle != nil {
				r.OnIdle(time.Now())
			}
			if done() {
				return
			}
			if idle >= idleLimit {
				r.Logf("idle limit reached with %d parked (all stalled) and work unfinished", len(ps))
				return
			}
			d := clockSteps[3+r.S.Draw(4)]
			idle += d
			r.Advance(d)
			continue
		}
		if !r.FairNoClock && r.clockProb > 0 && r.S.Chance(r.clockProb) {
			r.Advance(clockSteps[r.S.Draw(len(clockSteps))])
			continue
		}
		if r.OnPick != nil {
			r.OnPick()
		}
		var p *simrt.Parked
		if r.Prefer != nil {
			p = r.Prefer(en) // scenario-specific bias towards interleavings right after a state change
		}
		if p == nil {
			p = r.choose(en)
		}
		dec := r.decideFault(p)
		if dec.Fault == fStall {
			if r.Faults.StallForever {
				p.StallUntil = -1
			} else {
				p.StallUntil = time.Now().Add(time.Duration(1+dec.Arg) * 200 * time.Millisecond).UnixNano()
			}
			r.sched = append(r.sched, fmt.Sprintf("%d stall %s %s %s", r.Step, p.Actor, p.Kind, p.Site))
			r.Logf("stall %s at %s %s", p.Actor, p.Kind, p.Site)
			continue
		}
		r.lastActor = p.Actor
		r.LastKind = p.Kind
		r.sched = append(r.sched, fmt.Sprintf("%d %s %s %s f=%d", r.Step, p.Actor, p.Kind, p.Site, dec.Fault))
		if r.Keep || p.Kind != "y" {
			r.Logf("run %s at %s %s fault=%d", p.Actor, p.Kind, p.Site, dec.Fault)
		}
		tick()
		simrt.Release(p, dec)
	}
}

// tick moves the simulated clock by one microsecond before every release, so that timers armed
// in different steps never share a deadline instant: the order in which same-instant timers fire
// relative to the goroutines they wake is not under the simulator's control.
//
// A timer of the system under test can fall exactly on the instant the controller's own sleep
// ends (a 1 ms context deadline armed on a tick boundary does, a thousand ticks later). Which of
// the two the runtime serves first is not ours to decide, so the controller waits for quiescence
// again before it releases anything: whatever the expired timer set in motion has run to its next
// parking point by then, in either order.
func tick() {
	time.Sleep(time.Microsecond)
	synctest.Wait()
}

// FairDrain is the liveness phase: faults are off, stalls end, and every enabled actor is
// released round-robin; the clock advances when nothing is enabled. It returns when done()
// holds at a quiescent point, or after maxSteps steps / maxSim simulated time.
func (r *Run) FairDrain(done func() bool, maxSteps int, maxSim time.Duration) bool {
	r.FaultsOff = true
	r.UnstallAll()
	startT := time.Now()
	for i := 0; i < maxSteps; i++ {
		synctest.Wait()
		if r.OnStep != nil {
			r.OnStep()
		}
		r.Step++
		if r.Fatal {
			r.Budget = true
			return false
		}
		r.UnstallAll()
		ps := simrt.ParkedList()
		if len(ps) == 0 {
			if r.OnIdle != nil {
				r.OnIdle(time.Now())
			}
			if done() {
				return true
			}
			if time.Since(startT) > maxSim {
				return false
			}
			r.Advance(100 * time.Millisecond)
			continue
		}
		p := ps[i%len(ps)]
		dec := r.decideFault(p) // only FCtx can come out of this now
		r.sched = append(r.sched, fmt.Sprintf("%d drain %s %s %s", r.Step, p.Actor, p.Kind, p.Site))
		tick()
		simrt.Release(p, dec)
	}
	synctest.Wait()
	if r.OnStep != nil {
		r.OnStep()
	}
	return done()
}

// Teardown lets every goroutine of the run finish: gates pass through, parked goroutines are
// released, the clock advances. It reports whether everything exited (otherwise the process is
// dirty and must not run another seed).
func (r *Run) Teardown(cleanup func()) bool {
	simrt.SetMode(simrt.ModeOff)
	r.FaultsOff = true
	r.OnStep = nil
	r.OnClock = nil
	r.OnIdle = nil
	r.OnPick = nil
	if cleanup != nil {
		cleanup()
	}
	for i := 0; i < 400; i++ {
		synctest.Wait()
		n := simrt.ReleaseAll()
		if n == 0 {
			if len(simrt.AliveNames()) == 0 {
				return true
			}
			time.Sleep(200 * time.Millisecond)
		}
	}
	synctest.Wait()
	return len(simrt.AliveNames()) == 0
}

// ---------------------------------------------------------------------------------------------
// SimCtx: a context whose AfterFunc callbacks run only when the controller schedules them
// (DESIGN.md §2.5), and that the controller can cancel at any step.

type SimCtx struct {
	context.Context // parent (for Value)
	r               *Run
	name            string
	mu              sync.Mutex
	done            chan struct{}
	err             error
	deadline        time.Time
	hasDeadline     bool
	funcs           map[int]func()
	nextID          int
	timer           *time.Timer
}

// NewSimCtx returns a cancellable context; timeout > 0 arms a deadline on the simulated clock.
func (r *Run) NewSimCtx(name string, timeout time.Duration) *SimCtx {
	c := &SimCtx{Context: context.Background(), r: r, name: name, done: make(chan struct{}), funcs: map[int]func(){}}
	if timeout > 0 {
		c.deadline = time.Now().Add(timeout)
		c.hasDeadline = true
		c.timer = time.AfterFunc(timeout, func() { c.cancel(context.DeadlineExceeded) })
	}
	return c
}

func (c *SimCtx) Deadline() (time.Time, bool) { return c.deadline, c.hasDeadline }
func (c *SimCtx) Done() <-chan struct{}       { return c.done }
func (c *SimCtx) Err() error {
	c.mu.Lock()
	defer c.mu.Unlock()
	return c.err
}

func (c *SimCtx) Cancel() { c.cancel(context.Canceled) }

func (c *SimCtx) cancel(err error) {
	c.mu.Lock()
	if c.err != nil {
		c.mu.Unlock()
		return
	}
	c.err = err
	close(c.done)
	fs := c.funcs
	c.funcs = map[int]func(){}
	ids := make([]int, 0, len(fs))
	for id := range fs {
		ids = append(ids, id)
	}
	sort.Ints(ids)
	c.mu.Unlock()
	if c.timer != nil {
		c.timer.Stop()
	}
	for _, id := range ids {
		c.spawn(id, fs[id])
	}
}

func (c *SimCtx) spawn(id int, f func()) {
	name := fmt.Sprintf("afterfunc-%s-%d", c.name, id)
	simrt.GoNamed(name, func() {
		// The callback runs only when the controller picks this actor: arbitrarily late.
		simrt.Gate("afterfunc", c.name, nil)
		f()
	})
}

// AfterFunc implements the optional interface context.AfterFunc looks for.
func (c *SimCtx) AfterFunc(f func()) (stop func() bool) {
	c.mu.Lock()
	if c.err != nil {
		c.mu.Unlock()
		c.nextID++
		c.spawn(1000+c.nextID, f)
		return func() bool { return false }
	}
	c.nextID++
	id := c.nextID
	c.funcs[id] = f
	c.mu.Unlock()
	return func() bool {
		c.mu.Lock()
		defer c.mu.Unlock()
		if _, ok := c.funcs[id]; ok {
			delete(c.funcs, id)
			return true
		}
		return false
	}
}
