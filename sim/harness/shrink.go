package harness

import (
	"encoding/json"
	"os"
)

// Tape minimisation (DESIGN.md §3.3). The shrinker runs inside the worker process; a candidate
// whose execution leaves goroutines behind makes the process exit with status 3 after the state
// has been persisted, and the driver simply starts it again.

type shrinkState struct {
	ReplayFile
	Pass    int  `json:"shrink_pass"`
	Index   int  `json:"shrink_index"`
	Runs    int  `json:"shrink_runs"`
	MaxRuns int  `json:"shrink_max_runs"`
	Cycle   int  `json:"shrink_cycle"`
	Changed bool `json:"shrink_changed"`
	Done    bool `json:"shrink_done"`
}

type shrinkPass struct {
	tape string
	kind string // trunc, delete, zero, dec
	size int    // chunk size for delete/zero (0 = derive from length)
}

var shrinkPasses = []shrinkPass{
	{"f", "trunc", 0}, {"s", "trunc", 0}, {"w", "trunc", 0},
	{"w", "delete", 16}, {"w", "delete", 4}, {"w", "delete", 1},
	{"f", "zero", 8}, {"f", "zero", 1},
	{"s", "zero", 32}, {"s", "zero", 4}, {"s", "zero", 1},
	{"w", "zero", 8}, {"w", "zero", 1},
	{"s", "dec", 0}, {"w", "dec", 0},
}

func cloneTapes(t map[string][]uint32) map[string][]uint32 {
	out := map[string][]uint32{}
	for k, v := range t {
		out[k] = append([]uint32(nil), v...)
	}
	return out
}

// candidate returns the i-th candidate of a pass against best; more=false when the pass is
// exhausted; skip=true when the candidate equals best.
func candidate(p shrinkPass, i int, best map[string][]uint32) (c map[string][]uint32, more bool, skip bool) {
	t := best[p.tape]
	n := len(t)
	switch p.kind {
	case "trunc":
		cuts := []int{0, n / 8, n / 4, n / 2, n - n/4, n - n/8, n - 1}
		if i >= len(cuts) {
			return nil, false, false
		}
		k := cuts[i]
		if k < 0 || k >= n {
			return nil, true, true
		}
		c = cloneTapes(best)
		c[p.tape] = c[p.tape][:k]
		return c, true, false
	case "delete":
		start := i * p.size
		if start >= n {
			return nil, false, false
		}
		end := min(start+p.size, n)
		c = cloneTapes(best)
		c[p.tape] = append(append([]uint32(nil), t[:start]...), t[end:]...)
		return c, true, false
	case "zero":
		start := i * p.size
		if start >= n {
			return nil, false, false
		}
		end := min(start+p.size, n)
		nz := false
		for _, v := range t[start:end] {
			if v != 0 {
				nz = true
			}
		}
		if !nz {
			return nil, true, true
		}
		c = cloneTapes(best)
		for j := start; j < end; j++ {
			c[p.tape][j] = 0
		}
		return c, true, false
	case "dec":
		// Two candidates per entry: halve, decrement.
		pos, how := i/2, i%2
		if pos >= n {
			return nil, false, false
		}
		v := t[pos]
		if v <= 1 && how == 0 || v == 0 {
			return nil, true, true
		}
		c = cloneTapes(best)
		if how == 0 {
			c[p.tape][pos] = v / 2
		} else {
			c[p.tape][pos] = v - 1
		}
		return c, true, false
	}
	return nil, false, false
}

func persistShrink(path string, st *shrinkState) {
	b, _ := json.MarshalIndent(st, "", " ")
	tmp := path + ".tmp"
	os.WriteFile(tmp, b, 0o644)
	os.Rename(tmp, path)
}

func shrinkMain(path string, emit func(any)) int {
	data, err := os.ReadFile(path)
	if err != nil {
		emit(map[string]string{"error": err.Error()})
		return 2
	}
	var st shrinkState
	if err := json.Unmarshal(data, &st); err != nil {
		emit(map[string]string{"error": err.Error()})
		return 2
	}
	if st.MaxRuns == 0 {
		st.MaxRuns = 1200
	}
	if st.Original == nil {
		st.Original = cloneTapes(st.Tapes)
	}
	fails := func(res *Result) bool {
		for _, v := range res.Violations {
			if (v.Prop == st.Property || v.Prop == "*") && v.Kind == st.Kind {
				return true
			}
		}
		return false
	}
	for !st.Done && st.Runs < st.MaxRuns {
		if st.Pass >= len(shrinkPasses) {
			if !st.Changed || st.Cycle >= 3 {
				st.Done = true
				break
			}
			st.Pass, st.Index, st.Changed = 0, 0, false
			st.Cycle++
			continue
		}
		p := shrinkPasses[st.Pass]
		c, more, skip := candidate(p, st.Index, st.Tapes)
		if !more {
			st.Pass++
			st.Index = 0
			continue
		}
		if skip {
			st.Index++
			continue
		}
		res := execute(st.Seed, st.Scenario, ExecOpts{Tapes: c, Enum: st.Enum, EnumPos: st.EnumPos, EnumVariant: st.EnumVariant})
		st.Runs++
		if fails(res) {
			st.Tapes = res.Tapes // only what was actually consumed
			st.Changed = true
			if p.kind == "trunc" {
				st.Index = 0
			} else if p.kind == "zero" || p.kind == "dec" {
				st.Index++
			}
		} else {
			st.Index++
		}
		if res.Dirty || res.Panic != "" {
			persistShrink(path, &st)
			return 3
		}
		if st.Runs%25 == 0 {
			persistShrink(path, &st)
		}
	}
	st.Done = true
	st.Minimised = true
	persistShrink(path, &st)
	emit(map[string]any{"shrink_done": true, "runs": st.Runs, "w": len(st.Tapes["w"]), "s": len(st.Tapes["s"]), "f": len(st.Tapes["f"])})
	return 0
}
