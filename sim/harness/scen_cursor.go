package harness

import (
	"context"
	"encoding/json"
	"errors"
	"fmt"
	"reflect"
	"regexp"
	"strings"
	"time"

	bs "github.com/danthegoodman1/bloomsearch"
	"verifsim/simrt"
)

// S-cursor: the query pipeline scenario (DESIGN.md §5). Serves C20 C21 C22.

type cursorQuerySpec struct {
	Kind      int `json:"kind"`     // index into cursorQueries
	Consumer  int `json:"consumer"` // 0 prompt, 1 slow, 2 stalls forever after K rows, 3 closes after K rows, 4 never calls Next (abandons), 5 Close before first Next
	K         int `json:"k"`        // rows before the consumer's special action
	GateEvery int `json:"gate_every"`
	Ctx       int `json:"ctx"` // 0 background, 1 cancelled by the controller at some step, 2 deadline
	TimeoutMs int `json:"timeout_ms"`
	SideClose int `json:"side_close"` // 0 none, 1 a second goroutine calls Close at some step
	ExtraNext int `json:"extra_next"` // Next/Row/Err/Close calls after the terminal state
}

type cursorWorkload struct {
	Files    [][]int             `json:"files"` // per file: rows per partition block
	Compress string              `json:"compression"`
	QConc    int                 `json:"max_query_concurrency"`
	EngState int                 `json:"engine_state"` // 0 never started, 1 running, 2 stopped
	Clients  [][]cursorQuerySpec `json:"clients"`
	MetaBug  MetaBuggify         `json:"meta_buggify"`
	RealMeta bool                `json:"real_memory_metastore"`
	LazyTomb bool                `json:"lazy_tombstone"`
	// ReorderFilters rewrites the files the way an external writer may lay them out: the block
	// filter sections in reverse block order inside the region (legal for the format; the query's
	// filter pass then needs one region read per block instead of one per file).
	ReorderFilters bool `json:"reorder_filter_sections"`
	FaultClass     int  `json:"fault_class"`
}

type cursorQuery struct {
	Spec     cursorQuerySpec
	Tag      string
	Client   string
	Q        *bs.Query
	Expected map[string]bool

	ctx             context.Context
	simctx          *SimCtx
	cancel          context.CancelFunc
	res             *bs.Results
	queryErr        error
	spawnLo         int
	spawnHi         int
	IDs             []string
	NextFalse       bool // Next has returned false
	nfStep          int
	nfInvoke        int
	CtxErrAtNF      error // caller ctx error when the final Next was invoked
	CtxErrAfter     error // caller ctx error right after the final Next returned
	ClosedByMe      bool  // the consumer (or side closer) called Close before Next returned false
	CtxErrAtClose   error // caller ctx error when the first such Close was invoked
	closeStep       int
	Err             error
	ErrSeen         bool
	Stats           bs.QueryStats
	Terminal        bool // Next returned false or Close returned: resources must be released
	termStep        int
	Checked         bool
	Stalled         bool // consumer deliberately stopped consuming
	Problems        []string
	inNext          bool             // the consumer is inside Next right now
	nextDone        bool             // Next has returned false (Err not read yet)
	CloseDuringNext bool             // the side closer called Close while the consumer was inside Next
	Unfaithful      []string         // C03: rows that differ from the JSON round trip of what was ingested
	Rows            []map[string]any // every delivered row, re-examined at the end of the run
}

func cursorQueries() []*bs.Query {
	and := bs.And(bs.Field("level"), bs.Token("timeout"))
	or := bs.Or(bs.FieldToken("level", "error"), bs.Token("login"))
	pf := bs.Partition(bs.PartitionEquals("p0"))
	pfm := bs.MinMax("n", bs.NumericLessThan(50))
	tok := bs.Token("error")
	re := bs.FieldRegex("msg", "time")
	absent := bs.Token("absent-token")
	return []*bs.Query{
		nil,
		bs.NewQuery().Build(),
		{Bloom: &bs.BloomQuery{Expression: &tok}},
		{Bloom: &bs.BloomQuery{Expression: &and}},
		{Bloom: &bs.BloomQuery{Expression: &or}},
		{Prefilter: &bs.QueryPrefilter{Expression: &pf}},
		{Prefilter: &bs.QueryPrefilter{Expression: &pfm}, Bloom: &bs.BloomQuery{Expression: &tok}},
		{Regex: &bs.RegexQuery{Expression: &re}},
		{Bloom: &bs.BloomQuery{Expression: &absent}},
	}
}

func genCursorWorkload(w *Tape) *cursorWorkload {
	wl := &cursorWorkload{}
	nf := w.Range(1, 5)
	for f := 0; f < nf; f++ {
		// Mostly a few blocks of any size; sometimes many small blocks, so that the 16-entry block
		// job channel fills up behind stalled consumers.
		nb := []int{1, 2, 3, 4, 2, 3, 8, 14}[w.Draw(8)]
		var blocks []int
		for b := 0; b < nb; b++ {
			if nb > 4 {
				blocks = append(blocks, []int{1, 3, 10, 40}[w.Draw(4)])
			} else {
				blocks = append(blocks, []int{1, 3, 10, 40, 70, 130, 300}[w.Draw(7)])
			}
		}
		wl.Files = append(wl.Files, blocks)
	}
	wl.Compress = []string{"none", "snappy", "zstd"}[w.Draw(3)]
	wl.QConc = []int{1, 1, 2, 3, 8}[w.Draw(5)]
	wl.EngState = w.Draw(3)
	wl.RealMeta = w.Draw(4) == 0
	if !wl.RealMeta {
		wl.MetaBug = MetaBuggify{IgnorePrefilter: w.Draw(3) == 0, FilterBlocks: w.Bool(), ReverseBlocks: w.Draw(3) == 0, ReverseFiles: w.Draw(3) == 0}
	}
	wl.LazyTomb = w.Bool()
	wl.ReorderFilters = w.Draw(3) == 0
	wl.FaultClass = w.Draw(4)
	nc := w.Range(1, 5)
	nq := len(cursorQueries())
	for c := 0; c < nc; c++ {
		var qs []cursorQuerySpec
		n := w.Range(1, 2)
		for i := 0; i < n; i++ {
			qs = append(qs, cursorQuerySpec{
				Kind:      w.Draw(nq),
				Consumer:  []int{0, 0, 0, 1, 2, 3, 4, 5}[w.Draw(8)],
				K:         []int{0, 1, 5, 64, 65, 200}[w.Draw(6)],
				GateEvery: []int{1, 7, 64}[w.Draw(3)],
				Ctx:       []int{0, 0, 0, 1, 1, 2}[w.Draw(6)],
				TimeoutMs: []int{1, 50, 400}[w.Draw(3)],
				SideClose: []int{0, 0, 0, 1}[w.Draw(4)],
				ExtraNext: w.Draw(3),
			})
		}
		wl.Clients = append(wl.Clients, qs)
	}
	return wl
}

type cursorState struct {
	r        *Run
	wl       *cursorWorkload
	eng      *bs.BloomSearchEngine
	disk     *SimDisk
	simMeta  *SimMeta
	gmeta    *GatedMeta
	meta     bs.MetaStore
	rows     map[string]*SpecRow
	pids     map[string]string
	nvals    map[string]int
	want     map[string]map[string]any // _id -> JSON round trip of the ingested row
	queries  []*cursorQuery
	fin      int
	quit     chan struct{}
	maxGauge int
	census   *Census
}

// buildStore writes the store from the controller with every gate open.
func (st *cursorState) buildStore() {
	cfg := bs.DefaultBloomSearchEngineConfig()
	cfg.RowDataCompression = compressionOf(st.wl.Compress)
	cfg.MaxBufferedRows = 1 << 20
	cfg.MaxBufferedBytes = 1 << 30
	cfg.MaxRowGroupRows = 1 << 20
	cfg.MaxRowGroupBytes = 1 << 30
	cfg.MaxBufferedTime = time.Hour
	cfg.PartitionFunc = partitionByP
	cfg.MinMaxIndexes = []string{"n"}
	cfg.BloomFalsePositiveRate = 0.01
	eng, err := bs.NewBloomSearchEngine(cfg, st.meta, st.disk)
	if err != nil {
		panic(err)
	}
	eng.Start()
	words := []string{"error", "info", "login failed", "timeout reached", "payment processed", "database timeout error", "ok"}
	levels := []string{"error", "info", "warn"}
	id := 0
	for fi, blocks := range st.wl.Files {
		var rows []map[string]any
		for bi, n := range blocks {
			for i := 0; i < n; i++ {
				row := map[string]any{"_id": fmt.Sprintf("r%05d", id), "p": fmt.Sprintf("p%d", bi), "n": (id * 7) % 100, "msg": words[(id+fi)%len(words)]}
				if id%3 != 0 {
					row["level"] = levels[id%len(levels)]
				}
				raw, _ := json.Marshal(row)
				sid := row["_id"].(string)
				st.rows[sid] = BuildSpecRow(raw, SpecDefaultTokenizer)
				var rt map[string]any
				json.Unmarshal(raw, &rt)
				st.want[sid] = rt
				st.pids[sid] = row["p"].(string)
				st.nvals[sid] = row["n"].(int)
				rows = append(rows, row)
				id++
			}
		}
		ch := make(chan error, 1)
		if err := eng.IngestRows(context.Background(), rows, ch); err != nil {
			panic(err)
		}
		if err := eng.Flush(context.Background()); err != nil {
			panic(err)
		}
		if err := <-ch; err != nil {
			panic(err)
		}
	}
	if err := eng.Stop(context.Background()); err != nil {
		panic(err)
	}
}

// reorderFilterSections reverses the order of the filter sections inside every file's block filter
// region and updates the metadata held by the MetaStore accordingly.
func (st *cursorState) reorderFilterSections() {
	metas, err := ListMeta(st.meta)
	if err != nil {
		return
	}
	for _, mf := range metas {
		md := cloneFileMetadata(mf.Meta)
		if len(md.DataBlocks) < 2 {
			continue
		}
		data, ok := st.disk.FileBytes(mf.Ptr)
		if !ok {
			continue
		}
		out := append([]byte(nil), data...)
		off := md.BlockFilterRegionOffset
		for i := len(md.DataBlocks) - 1; i >= 0; i-- {
			b := &md.DataBlocks[i]
			sec := data[b.BloomFilterOffset : b.BloomFilterOffset+b.BloomFilterSize]
			copy(out[off:], sec)
			b.BloomFilterOffset = off
			off += b.BloomFilterSize
		}
		st.disk.SetFileBytes(mf.Ptr, out)
		if err := st.meta.Update(context.Background(), []bs.WriteOperation{{FileMetadata: &md, FilePointerBytes: []byte(mf.Ptr)}}, nil); err != nil {
			panic(err)
		}
		st.r.Probe("cursor.filter-sections-reordered")
	}
}

func (st *cursorState) expected(q *bs.Query) map[string]bool {
	out := map[string]bool{}
	cache := map[string]*regexp.Regexp{}
	var pf *bs.QueryPrefilter
	if q != nil {
		pf = q.Prefilter
	}
	for id, sr := range st.rows {
		if !sr.MatchQuery(q, cache) {
			continue
		}
		// One block per (file, partition) and every row provides "n": block-level prefilter
		// outcomes are decided per block; expected = rows of blocks whose metadata may satisfy.
		out[id] = true
		_ = pf
	}
	return out
}

func (st *cursorState) client(name string, qs []*cursorQuery) {
	r := st.r
	for _, cq := range qs {
		simrt.Gate("op", "query "+cq.Tag, nil)
		sp := cq.Spec
		switch sp.Ctx {
		case 1:
			cq.simctx = r.NewSimCtx(cq.Tag, 0)
			cq.ctx = WithTagCtx(cq.simctx, cq.Tag)
		case 2:
			c, cancel := context.WithTimeout(context.Background(), time.Duration(sp.TimeoutMs)*time.Millisecond)
			cq.cancel = cancel
			cq.ctx = WithTag(c, cq.Tag)
		default:
			c, cancel := context.WithCancel(context.Background())
			cq.cancel = cancel
			cq.ctx = WithTag(c, cq.Tag)
		}
		cq.spawnLo = simrt.SpawnCount()
		res, err := st.eng.Query(cq.ctx, cq.Q)
		cq.spawnHi = simrt.SpawnCount()
		if err != nil {
			cq.queryErr = err
			cq.Terminal = true
			cq.termStep = r.Step
			continue
		}
		cq.res = res
		r.Logf("query %s started (consumer=%d ctx=%d)", cq.Tag, sp.Consumer, sp.Ctx)
		if sp.SideClose == 1 {
			simrt.GoNamed("closer-"+cq.Tag, func() {
				simrt.Gate("op", "side-close "+cq.Tag, nil)
				if !cq.NextFalse && !cq.nextDone {
					if !cq.ClosedByMe {
						cq.CtxErrAtClose = cq.ctx.Err()
						// A Next of the consumer that is in flight may already have decided the
						// terminal state (clean completion observed, not yet recorded): then
						// "cancelled before Close" does not imply "cancelled before completion".
						cq.CloseDuringNext = cq.inNext
					}
					cq.ClosedByMe = true
				}
				if err := res.Close(); err != nil {
					cq.Problems = append(cq.Problems, fmt.Sprintf("Close returned %v", err))
				}
				r.mu.Lock()
				if !cq.Terminal {
					cq.Terminal, cq.termStep = true, r.Step
				}
				r.mu.Unlock()
				r.Logf("side Close %s returned", cq.Tag)
			})
		}
		st.consume(cq)
	}
	r.mu.Lock()
	st.fin++
	r.mu.Unlock()
}

func (st *cursorState) markTerminal(cq *cursorQuery) {
	st.r.mu.Lock()
	if !cq.Terminal {
		cq.Terminal, cq.termStep = true, st.r.Step
	}
	st.r.mu.Unlock()
}

func (st *cursorState) consume(cq *cursorQuery) {
	r := st.r
	sp := cq.Spec
	res := cq.res
	closeNow := func() {
		if !cq.NextFalse {
			if !cq.ClosedByMe {
				cq.CtxErrAtClose = cq.ctx.Err()
			}
			cq.ClosedByMe = true
		}
		if err := res.Close(); err != nil {
			cq.Problems = append(cq.Problems, fmt.Sprintf("Close returned %v", err))
		}
		cq.closeStep = r.Step
		st.markTerminal(cq)
		r.Logf("Close %s returned", cq.Tag)
	}
	switch sp.Consumer {
	case 4: // never calls Next, never closes (until teardown)
		cq.Stalled = true
		<-st.quit
		res.Close()
		return
	case 5:
		closeNow()
	}
	n := 0
	for {
		if sp.GateEvery <= 1 || n%sp.GateEvery == 0 {
			simrt.Gate("op", fmt.Sprintf("next %s #%d", cq.Tag, n), nil)
		}
		if sp.Consumer == 1 && n%16 == 3 {
			time.Sleep(30 * time.Millisecond)
		}
		if sp.Consumer == 2 && n >= sp.K {
			cq.Stalled = true
			r.Logf("consumer of %s stalls after %d rows", cq.Tag, n)
			<-st.quit
			res.Close()
			return
		}
		if sp.Consumer == 3 && n == sp.K {
			closeNow()
		}
		cq.CtxErrAtNF = cq.ctx.Err()
		cq.nfInvoke = r.Step
		cq.inNext = true
		more := res.Next()
		cq.inNext = false
		if !more {
			cq.nextDone = true // the terminal state is decided from here on, whatever Close does later
			break
		}
		row := res.Row()
		if row == nil {
			cq.Problems = append(cq.Problems, "Row() returned nil after Next returned true")
		}
		cq.IDs = append(cq.IDs, idOfRow(row))
		if row != nil {
			// C03 under concurrent scans that reuse pooled buffers, store faults included: the
			// row equals what was ingested now, and still does when the run ends.
			if want, ok := st.want[idOfRow(row)]; ok && !reflect.DeepEqual(want, row) && len(cq.Unfaithful) < 3 {
				cq.Unfaithful = append(cq.Unfaithful, fmt.Sprintf("delivered %v, ingested %v", row, want))
			}
			cq.Rows = append(cq.Rows, row)
		}
		n++
	}
	cq.nfStep = r.Step
	cq.CtxErrAfter = cq.ctx.Err()
	cq.Err = res.Err()
	cq.ErrSeen = true
	cq.Stats = res.Stats()
	cq.NextFalse = true
	st.markTerminal(cq)
	r.Logf("Next %s -> false after %d rows, Err=%v", cq.Tag, n, cq.Err)
	if res.Row() != nil {
		cq.Problems = append(cq.Problems, "Row() is not nil after Next returned false")
	}
	for i := 0; i < sp.ExtraNext; i++ {
		simrt.Gate("op", fmt.Sprintf("extra %s #%d", cq.Tag, i), nil)
		if res.Next() {
			cq.Problems = append(cq.Problems, "Next returned true after having returned false")
		}
		if res.Row() != nil {
			cq.Problems = append(cq.Problems, "Row() is not nil after Next returned false")
		}
		if err := res.Close(); err != nil {
			cq.Problems = append(cq.Problems, fmt.Sprintf("Close returned %v", err))
		}
		if e2 := res.Err(); !sameErr(e2, cq.Err) {
			cq.Problems = append(cq.Problems, fmt.Sprintf("Err changed after the terminal state was observed: was %v, now %v", cq.Err, e2))
		}
	}
	if err := res.Close(); err != nil {
		cq.Problems = append(cq.Problems, fmt.Sprintf("Close returned %v", err))
	}
	if e2 := res.Err(); !sameErr(e2, cq.Err) {
		cq.Problems = append(cq.Problems, fmt.Sprintf("Err changed after Close following a decided terminal state: was %v, now %v", cq.Err, e2))
	}
}

func sameErr(a, b error) bool {
	if a == nil || b == nil {
		return a == nil && b == nil
	}
	return a.Error() == b.Error()
}

// WithTagCtx tags a non-standard context (SimCtx) by wrapping it.
func WithTagCtx(parent context.Context, tag string) context.Context { return WithTag(parent, tag) }

var childRe = regexp.MustCompile(`^(.*?)/[^/]+#(\d+)`)

// queryActorsAlive lists live actors whose spawn path descends from this Query call.
func (cq *cursorQuery) queryActorsAlive() []string {
	var out []string
	prefix := cq.Client + "/"
	for _, n := range simrt.AliveNames() {
		if !strings.HasPrefix(n, prefix) {
			continue
		}
		rest := n[len(prefix):]
		// rest = "<site>#<k>[/...]"
		hash := strings.Index(rest, "#")
		if hash < 0 {
			continue
		}
		k := 0
		for _, c := range rest[hash+1:] {
			if c < '0' || c > '9' {
				break
			}
			k = k*10 + int(c-'0')
		}
		if k >= cq.spawnLo && k < cq.spawnHi {
			out = append(out, n)
		}
	}
	return out
}

// onStep: gauges and release checks at every quiescent point.
func (st *cursorState) onStep() {
	r := st.r
	// C22(a): in-progress query reads never exceed MaxQueryConcurrency.
	g := st.disk.QueryReadsInFlight("q")
	if g > st.maxGauge {
		st.maxGauge = g
	}
	if g > st.wl.QConc {
		r.Violate("C22", "reads-exceed-concurrency", "%d DataStore reads by queries are in progress; MaxQueryConcurrency=%d", g, st.wl.QConc)
	}
	// C21: everything is released at the quiescent point after the terminal call returned.
	live := 0
	for _, cq := range st.queries {
		r.mu.Lock()
		term, checked := cq.Terminal, cq.Checked
		r.mu.Unlock()
		if cq.res != nil && !term {
			live++
		}
		if !term || checked || cq.res == nil {
			continue
		}
		cq.Checked = true
		for _, h := range st.disk.HandleStates() {
			if h.Tag != cq.Tag {
				continue
			}
			if h.Closes == 0 {
				r.Violate("C21", "handle-leaked", "query %s reached its terminal state at step %d but handle %d on %s is still open", cq.Tag, cq.termStep, h.ID, h.Ptr)
			}
		}
		n := 0
		if st.simMeta != nil {
			n = st.simMeta.ActiveIterCount(cq.Tag)
		} else {
			n = st.gmeta.ActiveIterCount(cq.Tag)
		}
		if n != 0 {
			r.Violate("C21", "iterator-still-running", "query %s reached its terminal state at step %d but its MetaStore iterator has not returned", cq.Tag, cq.termStep)
		}
		if alive := cq.queryActorsAlive(); len(alive) > 0 {
			// A goroutine that is merely on its way out (parked at a scheduling point, needing
			// nothing but its own next steps to return) is not "still running" in any sense a
			// caller can observe for long; one that is blocked on a real operation is. The
			// end-of-run check below demands that all of them are gone.
			parkedNow := map[string]bool{}
			for _, p := range simrt.ParkedList() {
				parkedNow[p.Actor] = true
			}
			var blocked []string
			for _, a := range alive {
				if !parkedNow[a] {
					blocked = append(blocked, a)
				}
			}
			if len(blocked) > 0 {
				r.Violate("C21", "goroutine-leaked", "query %s reached its terminal state at step %d but goroutines started for it are still blocked: %v", cq.Tag, cq.termStep, blocked)
			}
		}
		r.NonTriv["C21"] = true
	}
	if live == 0 && len(st.queries) > 0 {
		started := false
		for _, cq := range st.queries {
			if cq.res != nil {
				started = true
			}
		}
		if started {
			if n := bs.VerifQuerySemaphoreLen(st.eng); n != 0 {
				r.Violate("C21", "semaphore-slots-leaked", "no query is live but %d of %d query-semaphore slots are held", n, bs.VerifQuerySemaphoreCap(st.eng))
			}
		}
	}
	for _, m := range st.disk.MisuseList() {
		r.Violate("C21", "handle-misuse", "%s", m)
	}
}

// RunCursor executes one S-cursor run.
func RunCursor(r *Run, variant string) {
	wl := genCursorWorkload(r.W)
	st := &cursorState{r: r, wl: wl, rows: map[string]*SpecRow{}, pids: map[string]string{}, nvals: map[string]int{}, want: map[string]map[string]any{}, quit: make(chan struct{})}
	r.Samples = append(r.Samples, wl)
	st.disk = NewSimDisk(r)
	st.disk.LazyTombstone = wl.LazyTomb
	if wl.RealMeta {
		st.gmeta = NewGatedMeta(r, bs.NewMemoryMetaStore())
		st.meta = st.gmeta
	} else {
		st.simMeta = NewSimMeta(r)
		st.meta = st.simMeta
	}
	simrt.SetMode(simrt.ModeOff)
	st.buildStore()
	if wl.ReorderFilters {
		st.reorderFilterSections()
	}
	st.census = TakeCensus(st.meta, st.disk, true)
	if st.simMeta != nil {
		st.simMeta.Bug = wl.MetaBug
	}

	cfg := bs.DefaultBloomSearchEngineConfig()
	cfg.MaxQueryConcurrency = wl.QConc
	cfg.PartitionFunc = partitionByP
	cfg.MinMaxIndexes = []string{"n"}
	eng, err := bs.NewBloomSearchEngine(cfg, st.meta, st.disk)
	if err != nil {
		panic(err)
	}
	st.eng = eng
	switch wl.EngState {
	case 1:
		eng.Start()
	case 2:
		eng.Start()
		eng.Stop(context.Background())
	}

	fine := r.SetupPolicy(true, 800)
	switch wl.FaultClass {
	case 0, 1:
		r.Faults.Off = true
	default:
		rate := []int{20, 60}[wl.FaultClass-2]
		r.Faults = FaultPolicy{ErrPermille: map[string]int{"ds.open": rate, "ds.read": rate, "ms.iter": rate / 2, "ms.yield": rate / 2}, ShortPermille: rate, CorruptPermille: []int{0, rate}[r.S.Draw(2)],
			StallPermille: []int{0, 15}[r.S.Draw(2)], HonorCtx: r.S.Bool(), MaxFaults: 1 + r.S.Draw(4)}
	}
	if fine {
		sel := r.S.Draw(3)
		salt := uint64(r.Seed)*0x9e3779b97f4a7c15 + 777
		simrt.YieldEnabled = func(site string) bool {
			if strings.HasPrefix(site, "row_matcher") || strings.HasPrefix(site, "ingest") || strings.HasPrefix(site, "flush") {
				return false
			}
			switch sel {
			case 0:
				return true
			case 1:
				return strings.HasPrefix(site, "query_results") || strings.HasPrefix(site, "query_handles") || site == "start"
			}
			return int(hashStr(site, salt)%1000) < 400
		}
		simrt.SetMode(simrt.ModeFine)
	} else {
		simrt.SetMode(simrt.ModeCoarse)
	}
	r.MaxSteps = 60000
	r.OnStep = st.onStep

	qdefs := cursorQueries()
	for ci, specs := range wl.Clients {
		name := fmt.Sprintf("client%d", ci)
		var mine []*cursorQuery
		for qi, sp := range specs {
			cq := &cursorQuery{Spec: sp, Tag: fmt.Sprintf("q-c%d-%d", ci, qi), Client: name, Q: qdefs[sp.Kind]}
			cq.Expected = st.expected(cq.Q)
			mine = append(mine, cq)
			st.queries = append(st.queries, cq)
		}
		simrt.GoNamed(name, func() { st.client(name, mine) })
	}
	// Controller-driven cancellation of SimCtx query contexts.
	r.OnPick = func() {
		if r.S.Chance(20) {
			var cands []*cursorQuery
			for _, cq := range st.queries {
				if cq.simctx != nil && cq.res != nil && cq.simctx.Err() == nil {
					cands = append(cands, cq)
				}
			}
			if len(cands) > 0 {
				cq := cands[r.S.Draw(len(cands))]
				r.Logf("controller cancels ctx of %s", cq.Tag)
				cq.simctx.Cancel()
			}
		}
	}
	allDone := func() bool {
		r.mu.Lock()
		defer r.mu.Unlock()
		// Clients whose consumer is deliberately stalled never finish on their own.
		for _, cq := range st.queries {
			if cq.res == nil && cq.queryErr == nil {
				// not started yet: is its client blocked behind a stalled consumer?
				continue
			}
		}
		return st.fin == len(wl.Clients)
	}
	liveDone := func() bool {
		// Every query whose consumer keeps consuming has reached Next()==false.
		for ci := range wl.Clients {
			blocked := false
			for _, cq := range st.queries {
				if cq.Client != fmt.Sprintf("client%d", ci) {
					continue
				}
				if blocked {
					continue
				}
				if cq.Stalled || cq.Spec.Consumer == 2 || cq.Spec.Consumer == 4 {
					// once this client's consumer stalls, its later queries never start
					if !cq.NextFalse {
						blocked = true
					}
					continue
				}
				if cq.queryErr == nil && !cq.NextFalse {
					return false
				}
			}
		}
		return true
	}
	r.Loop(func() bool { return allDone() || liveDone() }, 20*time.Second)
	r.OnPick = nil

	// ---- liveness: faults stop; consumers that keep consuming must finish (C20 R1, C22 b) ----
	ok := true
	if !r.Budget {
		ok = r.FairDrain(liveDone, 30000, 30*time.Second)
	}
	if !ok && !r.Budget {
		for _, cq := range st.queries {
			if cq.res != nil && !cq.NextFalse && !cq.Stalled && cq.Spec.Consumer != 2 && cq.Spec.Consumer != 4 {
				stalledOthers := 0
				for _, o := range st.queries {
					if o.Stalled {
						stalledOthers++
					}
				}
				if stalledOthers > 0 {
					r.Violate("C22", "starved-by-stalled-consumer", "query %s never reached Next()==false although faults stopped and every non-stalled actor was scheduled fairly; %d other queries have stalled consumers (MaxQueryConcurrency=%d)", cq.Tag, stalledOthers, wl.QConc)
				}
				r.Violate("C20", "next-never-returns-false", "query %s never reached Next()==false within the liveness budget after faults stopped (consumer %d, ctx %d)", cq.Tag, cq.Spec.Consumer, cq.Spec.Ctx)
			}
		}
	}
	st.onStep()
	if !r.Budget {
		st.evaluate()
	}
	r.ProbeN("cursor.max-reads-in-flight", st.maxGauge)
	if st.maxGauge >= wl.QConc {
		r.NonTriv["C22"] = true
		r.Probe("cursor.gauge-reached-limit")
	}

	okT := r.Teardown(func() {
		close(st.quit)
		for _, cq := range st.queries {
			if cq.cancel != nil {
				cq.cancel()
			}
			if cq.simctx != nil {
				cq.simctx.Cancel()
			}
		}
		if wl.EngState == 1 {
			cctx, cancel := context.WithCancel(context.Background())
			cancel()
			simrt.GoNamed("teardown-stop", func() { st.eng.Stop(cctx) })
		}
	})
	if !okT {
		r.Dirty = true
		r.Logf("teardown left goroutines: %v", simrt.AliveNames())
	}
}

func (st *cursorState) evaluate() {
	r := st.r
	injs := st.disk.Injs
	for _, cq := range st.queries {
		if cq.res == nil {
			continue
		}
		if cq.Terminal {
			if alive := cq.queryActorsAlive(); len(alive) > 0 {
				r.Violate("C21", "goroutine-leaked", "query %s reached its terminal state at step %d; at the end of the run (every actor scheduled fairly) goroutines started for it are still running: %v", cq.Tag, cq.termStep, alive)
			}
		}
		for _, p := range cq.Problems {
			r.Violate("C20", "cursor-contract", "query %s: %s", cq.Tag, p)
		}
		for _, p := range cq.Unfaithful {
			r.Violate("C03", "row-not-faithful-concurrent-scans", "query %s: %s", cq.Tag, p)
		}
		for _, row := range cq.Rows {
			if want, ok := st.want[idOfRow(row)]; ok && !reflect.DeepEqual(want, row) && len(cq.Unfaithful) == 0 {
				r.Violate("C03", "row-changed-after-delivery", "query %s: row %s was delivered intact but reads %v at the end of the run (ingested %v)", cq.Tag, idOfRow(row), row, want)
				break
			}
		}
		if len(cq.Rows) > 0 {
			r.NonTriv["C03"] = true
		}
		if !cq.NextFalse {
			continue
		}
		r.NonTriv["C20"] = true
		got := map[string]int{}
		for _, id := range cq.IDs {
			got[id]++
		}
		complete := true
		for id := range cq.Expected {
			if got[id] != 1 {
				complete = false
			}
		}
		var pf *bs.QueryPrefilter
		if cq.Q != nil {
			pf = cq.Q.Prefilter
		}
		hasPF := pf != nil && pf.Expression != nil
		if hasPF {
			// With a prefilter the exact answer is block-granular; completeness is judged on the
			// rows whose own values satisfy it.
			complete = true
			for id := range cq.Expected {
				if RowSatisfiesPrefilter(pf, st.pids[id], map[string]any{"n": st.nvals[id]}) && got[id] != 1 {
					complete = false
				}
			}
		}
		// Faults that fired on this query's calls.
		var mine []*InjErr
		corrupted := 0 // reads of this query that returned silently corrupted data: an error is allowed, not required
		for _, c := range st.disk.CallsSnapshot() {
			if c.Tag == cq.Tag && c.Corrupt {
				corrupted++
			}
			if c.Tag == cq.Tag && c.Err != nil {
				var ie *InjErr
				if errors.As(c.Err, &ie) {
					mine = append(mine, ie)
				}
			}
		}
		_ = injs
		mine = append(mine, r.MetaInjsFor(cq.Tag)...)
		cancelled := cq.CtxErrAtNF != nil
		if !cancelled && cq.CtxErrAfter != nil {
			// The caller's context ended while the final Next was running: either outcome
			// (completion or cancellation) is legitimate. Only "nil means complete" is held.
			if cq.Err == nil && !complete && !cq.ClosedByMe {
				r.Violate("C20", "nil-error-incomplete-result", "query %s finished with Err()==nil, was not closed, but returned %d rows where %d match", cq.Tag, len(cq.IDs), len(cq.Expected))
			}
			continue
		}
		switch {
		case cq.Err == nil:
			// R2: nil only if nothing failed, not cancelled, and the answer is complete.
			if len(mine) > 0 && !cq.ClosedByMe {
				r.Violate("C20", "nil-error-despite-failure", "query %s finished with Err()==nil although %d store calls of it failed (first: %v)", cq.Tag, len(mine), mine[0])
			}
			if cancelled && !cq.ClosedByMe { // a Close that came first froze the (nil) terminal state
				r.Violate("C20", "nil-error-despite-cancel", "query %s: the caller's context was already cancelled (%v) when the final Next was invoked, but Err() is nil", cq.Tag, cq.CtxErrAtNF)
			}
			if !complete && !cq.ClosedByMe {
				r.Violate("C20", "nil-error-incomplete-result", "query %s finished with Err()==nil, was not closed or cancelled, but returned %d rows where %d match", cq.Tag, len(cq.IDs), len(cq.Expected))
			}
		default:
			if cancelled && !cq.ClosedByMe && !errors.Is(cq.Err, cq.CtxErrAtNF) {
				r.Violate("C20", "cancel-error-not-wrapped", "query %s was cancelled (%v) before its final Next but Err() = %v does not wrap the context error", cq.Tag, cq.CtxErrAtNF, cq.Err)
			}
			if !cancelled && !cq.ClosedByMe {
				// R4: clean completion with faults: every recorded failure is reported.
				for _, ie := range mine {
					if !errors.Is(cq.Err, ie) {
						r.Violate("C20", "failure-not-reported", "query %s completed (no cancel, no Close) with Err() = %v, which does not include %v", cq.Tag, cq.Err, ie)
					}
				}
				if len(mine) == 0 && corrupted == 0 && !isMetaInj(cq.Err) {
					r.Violate("C20", "error-without-failure", "query %s completed with Err() = %v although none of its store calls failed and it was neither cancelled nor closed", cq.Tag, cq.Err)
				}
			}
			if cq.ClosedByMe && !cancelled && cq.CtxErrAtClose == nil {
				// R5: after a deliberate Close, Err is nil or made of injected sentinels only.
				if !errors.Is(cq.Err, ErrInjected) && corrupted == 0 {
					r.Violate("C20", "close-produced-error", "query %s was closed deliberately and Err() = %v is not one of the injected failures", cq.Tag, cq.Err)
				}
			}
		}
		// A Close that follows the caller's cancellation must not hide it: the query was canceled
		// before any terminal state had been decided.
		if cq.ClosedByMe && cq.CtxErrAtClose != nil && !cq.CloseDuringNext && !errors.Is(cq.Err, cq.CtxErrAtClose) {
			r.Violate("C20", "close-hides-cancellation", "query %s: the caller's context was already cancelled (%v) when Close was called, no terminal state had been decided, yet Err() = %v does not wrap the context error", cq.Tag, cq.CtxErrAtClose, cq.Err)
		}
		// C23 / C24 on this query's stats and attributed store calls.
		var calls []Call
		for _, c := range st.disk.CallsSnapshot() {
			if c.Tag == cq.Tag {
				calls = append(calls, c)
			}
		}
		obs := queryObs{Tag: cq.Tag, Q: cq.Q, Stats: cq.Stats, Returned: got, NReturned: len(cq.IDs), Calls: calls,
			Clean:         cq.Err == nil && len(mine) == 0 && !cancelled && cq.CtxErrAfter == nil && !cq.ClosedByMe,
			Uninterrupted: !cancelled && cq.CtxErrAfter == nil && !cq.ClosedByMe}
		CheckStatsStatic(r, obs, st.census)
		CheckPruningStatic(r, obs, st.census)
		for id, n := range got {
			if n > 1 {
				r.Violate("C02", "row-returned-twice", "query %s returned row %s %d times", cq.Tag, id, n)
			}
			if !cq.Expected[id] {
				r.Violate("C02", "non-matching-row-returned", "query %s returned row %s which does not match it", cq.Tag, id)
			}
		}
	}
}

func isMetaInj(err error) bool { return errors.Is(err, ErrInjected) }

func init() { otherScenarios["cursor"] = RunCursor }
