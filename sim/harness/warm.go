package harness

import (
	"context"
	"fmt"
	"testing/synctest"
	"time"

	bs "github.com/danthegoodman1/bloomsearch"
	"verifsim/simos"
	"verifsim/simrt"
)

// warmLibrary runs every once-only initialisation the library and its dependencies perform
// lazily (codec tables and pools per compression level, regexp, JSON and reflection caches)
// before the first measured run of the process. Such initialisations create and iterate maps and
// draw random seeds; if one of them happened inside a measured run instead, that run would consume
// the simulator's random streams differently from the same seed executed later in a process's
// life, and a replay in a fresh process would not reproduce it (DESIGN.md §13, history
// independence). The determinism self-test starts processes at different offsets to check that
// nothing of the kind is left.
func warmLibrary() {
	prevFS := simos.Current
	prevMode := simrt.Mode()
	simrt.BeginRun()
	simrt.OnPanic = nil
	simrt.SetMode(simrt.ModeOff)
	simos.Current = simos.NewFS()
	defer func() {
		simos.Current = prevFS
		simrt.SetMode(prevMode)
	}()
	type codec struct {
		c   bs.CompressionType
		lvl int
	}
	codecs := []codec{{bs.CompressionNone, 3}, {bs.CompressionSnappy, 3}, {bs.CompressionZstd, 1}, {bs.CompressionZstd, 2}, {bs.CompressionZstd, 3}, {bs.CompressionZstd, 4}}
	ctx := context.Background()
	for ci, cd := range codecs {
		root := fmt.Sprintf("/warm%d", ci)
		simos.MkdirAll(root, 0o755)
		store := bs.NewFileSystemDataStore(root)
		cfg := bs.DefaultBloomSearchEngineConfig()
		cfg.RowDataCompression = cd.c
		cfg.ZstdCompressionLevel = cd.lvl
		cfg.MaxBufferedRows = 3
		cfg.MaxRowGroupRows = 2
		cfg.MaxBufferedTime = time.Hour
		cfg.MinMaxIndexes = []string{"n", "ts"}
		cfg.MaxQueryConcurrency = 2
		cfg.PartitionFunc = func(row map[string]any) string {
			if s, ok := row["p"].(string); ok {
				return s
			}
			return ""
		}
		var meta bs.MetaStore = store
		if ci%2 == 1 {
			meta = bs.NewMemoryMetaStore()
		}
		eng, err := bs.NewBloomSearchEngine(cfg, meta, store)
		if err != nil {
			continue
		}
		eng.Start()
		for b := 0; b < 3; b++ {
			var rows []map[string]any
			for i := 0; i < 3; i++ {
				rows = append(rows, map[string]any{
					"_id": fmt.Sprintf("w%d-%d-%d", ci, b, i), "p": fmt.Sprintf("p%d", i%2), "n": b*10 + i, "ts": float64(i) * 1.5,
					"msg": "Hello warm World " + fmt.Sprint(i), "tags": []any{"a", 1, true, nil, map[string]any{"k": "v v"}},
					"nest": map[string]any{"a": map[string]any{"b": "deep value"}, "u": uint8(7), "i64": int64(-5)},
				})
			}
			ch := make(chan error, 1)
			if eng.IngestRows(ctx, rows, ch) == nil {
				<-ch
			}
		}
		eng.Flush(ctx)
		tok := bs.Token("hello")
		ft := bs.FieldToken("msg", "warm")
		fl := bs.Field("nest.a.b")
		and := bs.And(tok, bs.Or(ft, fl))
		re := bs.RegexAnd(bs.FieldRegex("msg", "(?i)w[a-z]+ld [0-9]"), bs.RegexOr(bs.FieldRegex("nest.a.b", "^deep"), bs.FieldRegex("nope", ".")))
		pf := bs.PrefilterAnd(bs.MinMax("n", bs.NumericBetween(0, 15)), bs.PrefilterOr(bs.MinMax("ts", bs.NumericLessThan(2)), bs.MinMax("n", bs.NumericIn(100, 200)), bs.Partition(bs.PartitionEquals("p0"))))
		queries := []*bs.Query{
			nil,
			{Bloom: &bs.BloomQuery{Expression: &and}},
			{Regex: &bs.RegexQuery{Expression: &re}},
			{Prefilter: &bs.QueryPrefilter{Expression: &pf}},
			{Bloom: &bs.BloomQuery{Expression: &and}, Regex: &bs.RegexQuery{Expression: &re}, Prefilter: &bs.QueryPrefilter{Expression: &pf}},
		}
		for round := 0; round < 2; round++ {
			for _, q := range queries {
				QueryAll(eng, ctx, q)
			}
			eng.Merge(ctx)
		}
		ListMeta(store)
		eng.Stop(ctx)
		synctest.Wait()
	}
}
