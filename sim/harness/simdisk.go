package harness

import (
	"context"
	"errors"
	"fmt"
	"io"
	"io/fs"
	"sort"
	"sync"

	"verifsim/simrt"
)

// ErrInjected is the root of every injected store error; each injection wraps it with a unique
// sentinel so oracles can tell which fault surfaced where.
var ErrInjected = errors.New("injected fault")

type InjErr struct {
	N    int
	Kind string
	Site string
}

func (e *InjErr) Error() string {
	return fmt.Sprintf("injected fault #%d at %s %s", e.N, e.Kind, e.Site)
}
func (e *InjErr) Unwrap() error { return ErrInjected }

type ctxKey int

const qtagKey ctxKey = 1

// WithTag marks ctx (and everything derived from it) as belonging to the operation tag, so that
// store calls can be attributed to the query / merge / flush that made them.
func WithTag(ctx context.Context, tag string) context.Context {
	return context.WithValue(ctx, qtagKey, tag)
}

func tagOf(ctx context.Context) string {
	if ctx == nil {
		return ""
	}
	if v, ok := ctx.Value(qtagKey).(string); ok {
		return v
	}
	return ""
}

// Call is one entry of the store call log.
type Call struct {
	Step   int
	End    int // step at which the call returned (0 while in progress)
	Kind   string
	Ptr    string
	Off    int64
	Len    int
	N      int
	Tag    string
	Handle int
	Err    error
	Actor  string
	// Corrupt: the read succeeded as far as the caller can tell, but one byte of the data it got
	// was flipped in flight.
	Corrupt bool
}

type simFile struct {
	data       []byte
	published  bool
	tombstoned bool
	createdAt  int
	closedAt   int
}

// SimDisk is the simulated DataStore (DESIGN.md §2.5).
type SimDisk struct {
	r  *Run
	mu sync.Mutex

	files   map[string]*simFile
	nCreate int
	nHandle int
	nInj    int

	LazyTombstone bool // tombstoned files stay readable (both behaviours are allowed by the contract)
	NoAbort       bool // writers do not implement Abort

	Calls   []*Call
	Handles map[int]*HandleState
	Injs    []*InjErr

	// Gauges.
	ReadsInFlight    map[string]int // tag -> reads entered and not returned
	MaxReadsInFlight int
	Misuse           []string // handle misuse observations (C21)
	OOB              []string // reads no reader of a file of that size can need (C19)
	OOBLimit         int      // size of the largest valid file image (metadata held elsewhere may describe it)
}

type HandleState struct {
	ID       int
	Ptr      string
	Tag      string
	OpenedAt int
	Closes   int
	ClosedAt int
	busy     string // actor currently inside a call
	Calls    int
}

func NewSimDisk(r *Run) *SimDisk {
	return &SimDisk{r: r, files: map[string]*simFile{}, Handles: map[int]*HandleState{}, ReadsInFlight: map[string]int{}}
}

func (d *SimDisk) inject(kind, site string) error {
	d.mu.Lock()
	d.nInj++
	e := &InjErr{N: d.nInj, Kind: kind, Site: site}
	d.Injs = append(d.Injs, e)
	d.mu.Unlock()
	d.r.Logf("inject %v", e)
	return e
}

func (d *SimDisk) logCall(c *Call) *Call {
	c.Step = d.r.Step
	c.Actor = simrt.Name()
	d.mu.Lock()
	d.Calls = append(d.Calls, c)
	d.mu.Unlock()
	return c
}

func (d *SimDisk) endCall(c *Call, n int, err error) {
	d.mu.Lock()
	c.End = d.r.Step
	c.N = n
	c.Err = err
	d.mu.Unlock()
}

// ---- DataStore ----

func (d *SimDisk) CreateFile(ctx context.Context) (io.WriteCloser, []byte, error) {
	c := d.logCall(&Call{Kind: "create", Tag: tagOf(ctx)})
	dec := simrt.Gate("ds.create", "", ctx)
	switch dec.Fault {
	case FErr, FLateErr, FShort:
		err := d.inject("ds.create", "")
		d.endCall(c, 0, err)
		return nil, nil, err
	case FCtx:
		d.endCall(c, 0, ctx.Err())
		return nil, nil, ctx.Err()
	}
	d.mu.Lock()
	d.nCreate++
	ptr := fmt.Sprintf("f%03d", d.nCreate)
	d.files[ptr] = &simFile{createdAt: d.r.Step}
	d.mu.Unlock()
	c.Ptr = ptr
	d.endCall(c, 0, nil)
	w := &simWriter{d: d, ptr: ptr, ctx: ctx}
	if d.NoAbort {
		return &simWriterNoAbort{w}, []byte(ptr), nil
	}
	return w, []byte(ptr), nil
}

type simWriter struct {
	d         *SimDisk
	ptr       string
	ctx       context.Context
	buf       []byte
	closed    bool
	published bool
	aborted   bool
}

type simWriterNoAbort struct{ w *simWriter }

func (x *simWriterNoAbort) Write(p []byte) (int, error) { return x.w.Write(p) }
func (x *simWriterNoAbort) Close() error                { return x.w.Close() }

func (w *simWriter) Write(p []byte) (int, error) {
	c := w.d.logCall(&Call{Kind: "write", Ptr: w.ptr, Off: int64(len(w.buf)), Len: len(p), Tag: tagOf(w.ctx)})
	dec := simrt.Gate("ds.write", fmt.Sprintf("%s@%d+%d", w.ptr, len(w.buf), len(p)), w.ctx)
	if w.closed || w.aborted {
		w.d.misuse("write after close/abort on %s", w.ptr)
		w.d.endCall(c, 0, fs.ErrClosed)
		return 0, fs.ErrClosed
	}
	switch dec.Fault {
	case FErr, FLateErr:
		err := w.d.inject("ds.write", w.ptr)
		w.d.endCall(c, 0, err)
		return 0, err
	case FShort:
		n := 0
		if len(p) > 0 {
			n = int(dec.Arg) % len(p)
		}
		w.buf = append(w.buf, p[:n]...)
		err := w.d.inject("ds.write(short)", w.ptr)
		w.d.endCall(c, n, err)
		return n, err
	case FCtx:
		w.d.endCall(c, 0, w.ctx.Err())
		return 0, w.ctx.Err()
	}
	w.buf = append(w.buf, p...)
	w.d.endCall(c, len(p), nil)
	return len(p), nil
}

func (w *simWriter) Close() error {
	c := w.d.logCall(&Call{Kind: "wclose", Ptr: w.ptr, Len: len(w.buf), Tag: tagOf(w.ctx)})
	dec := simrt.Gate("ds.wclose", w.ptr, w.ctx)
	if w.closed {
		w.d.endCall(c, 0, fs.ErrClosed)
		return fs.ErrClosed
	}
	w.closed = true
	switch dec.Fault {
	case FErr, FShort:
		err := w.d.inject("ds.wclose", w.ptr)
		w.d.endCall(c, 0, err)
		return err
	case FCtx:
		w.d.endCall(c, 0, w.ctx.Err())
		return w.ctx.Err()
	}
	w.d.mu.Lock()
	f := w.d.files[w.ptr]
	if f != nil && !w.aborted {
		f.data = append([]byte(nil), w.buf...)
		f.published = true
		f.closedAt = w.d.r.Step
	}
	w.d.mu.Unlock()
	if dec.Fault == FLateErr {
		// Published, but the store reports failure (e.g. the directory fsync after a rename).
		err := w.d.inject("ds.wclose(late)", w.ptr)
		w.d.endCall(c, 0, err)
		return err
	}
	w.published = true
	w.d.endCall(c, 0, nil)
	return nil
}

func (w *simWriter) Abort() error {
	c := w.d.logCall(&Call{Kind: "abort", Ptr: w.ptr, Tag: tagOf(w.ctx)})
	dec := simrt.Gate("ds.abort", w.ptr, w.ctx)
	if w.published {
		w.d.endCall(c, 0, nil)
		return nil // Abort after a successful Close is a no-op
	}
	w.aborted = true
	w.d.mu.Lock()
	if f := w.d.files[w.ptr]; f != nil {
		f.published = false
		f.data = nil
	}
	w.d.mu.Unlock()
	if dec.Fault == FErr {
		err := w.d.inject("ds.abort", w.ptr)
		w.d.endCall(c, 0, err)
		return err
	}
	w.d.endCall(c, 0, nil)
	return nil
}

func (d *SimDisk) OpenFile(ctx context.Context, ptr []byte) (io.ReadSeekCloser, error) {
	c := d.logCall(&Call{Kind: "open", Ptr: string(ptr), Tag: tagOf(ctx)})
	dec := simrt.Gate("ds.open", string(ptr), ctx)
	switch dec.Fault {
	case FErr, FLateErr, FShort:
		err := d.inject("ds.open", string(ptr))
		d.endCall(c, 0, err)
		return nil, err
	case FCtx:
		d.endCall(c, 0, ctx.Err())
		return nil, ctx.Err()
	}
	d.mu.Lock()
	f := d.files[string(ptr)]
	if f == nil || !f.published || (f.tombstoned && !d.LazyTombstone) {
		d.mu.Unlock()
		err := &fs.PathError{Op: "open", Path: string(ptr), Err: fs.ErrNotExist}
		d.endCall(c, 0, err)
		return nil, err
	}
	d.nHandle++
	hs := &HandleState{ID: d.nHandle, Ptr: string(ptr), Tag: tagOf(ctx), OpenedAt: d.r.Step}
	d.Handles[hs.ID] = hs
	data := f.data
	d.mu.Unlock()
	c.Handle = hs.ID
	d.endCall(c, 0, nil)
	return &simReader{d: d, hs: hs, data: data, ctx: ctx}, nil
}

type simReader struct {
	d    *SimDisk
	hs   *HandleState
	data []byte
	pos  int64
	ctx  context.Context
}

func (d *SimDisk) misuse(format string, a ...any) {
	msg := fmt.Sprintf(format, a...)
	d.mu.Lock()
	d.Misuse = append(d.Misuse, msg)
	d.mu.Unlock()
	d.r.Logf("handle misuse: %s", msg)
}

// enter/leave bracket every handle call so overlapping use by two goroutines and use after
// close are observable (C21).
func (x *simReader) enter(op string) {
	me := simrt.Name()
	x.d.mu.Lock()
	hs := x.hs
	hs.Calls++
	busy := hs.busy
	closed := hs.Closes > 0
	if busy == "" {
		hs.busy = me
	}
	x.d.mu.Unlock()
	if busy != "" {
		x.d.misuse("handle %d (%s, %s) used by %s (%s) while %s is inside a call", hs.ID, hs.Ptr, hs.Tag, me, op, busy)
	}
	if closed && op != "close" {
		x.d.misuse("handle %d (%s, %s) used (%s) after Close", hs.ID, hs.Ptr, hs.Tag, op)
	}
}

func (x *simReader) leave() {
	me := simrt.Name()
	x.d.mu.Lock()
	if x.hs.busy == me {
		x.hs.busy = ""
	}
	x.d.mu.Unlock()
}

func (x *simReader) Read(p []byte) (int, error) {
	x.enter("read")
	defer x.leave()
	tag := x.hs.Tag
	c := x.d.logCall(&Call{Kind: "read", Ptr: x.hs.Ptr, Off: x.pos, Len: len(p), Tag: tag, Handle: x.hs.ID})
	x.d.mu.Lock()
	x.d.ReadsInFlight[tag]++
	x.d.mu.Unlock()
	dec := simrt.Gate("ds.read", fmt.Sprintf("%s#%d@%d+%d", x.hs.Ptr, x.hs.ID, x.pos, len(p)), x.ctx)
	x.d.mu.Lock()
	x.d.ReadsInFlight[tag]--
	x.d.mu.Unlock()
	switch dec.Fault {
	case FErr, FLateErr:
		err := x.d.inject("ds.read", x.hs.Ptr)
		x.d.endCall(c, 0, err)
		return 0, err
	case FCtx:
		x.d.endCall(c, 0, x.ctx.Err())
		return 0, x.ctx.Err()
	}
	if limit := max(len(x.data), x.d.OOBLimit); len(p) > limit+64 || x.pos > int64(limit) {
		x.d.mu.Lock()
		x.d.OOB = append(x.d.OOB, fmt.Sprintf("Read of %d bytes at offset %d on %s, a %d-byte file", len(p), x.pos, x.hs.Ptr, len(x.data)))
		x.d.mu.Unlock()
	}
	if x.pos >= int64(len(x.data)) {
		x.d.endCall(c, 0, io.EOF)
		return 0, io.EOF
	}
	avail := x.data[x.pos:]
	n := len(p)
	if n > len(avail) {
		n = len(avail)
	}
	if dec.Fault == FShort && n > 1 {
		n = 1 + int(dec.Arg)%(n-1) // legal for io.Reader: fewer bytes than asked, no error
	}
	copy(p, avail[:n])
	if dec.Fault == FCorrupt && n > 0 {
		p[int(dec.Arg*131)%n] ^= 1 << uint(dec.Arg%8)
		x.d.mu.Lock()
		c.Corrupt = true
		x.d.mu.Unlock()
	}
	x.pos += int64(n)
	x.d.endCall(c, n, nil)
	return n, nil
}

func (x *simReader) Seek(off int64, whence int) (int64, error) {
	x.enter("seek")
	defer x.leave()
	var np int64
	switch whence {
	case io.SeekStart:
		np = off
	case io.SeekCurrent:
		np = x.pos + off
	case io.SeekEnd:
		np = int64(len(x.data)) + off
	default:
		return 0, errors.New("simdisk: bad whence")
	}
	if np < 0 {
		return 0, errors.New("simdisk: negative position")
	}
	x.pos = np
	return np, nil
}

func (x *simReader) Close() error {
	x.enter("close")
	defer x.leave()
	c := x.d.logCall(&Call{Kind: "rclose", Ptr: x.hs.Ptr, Tag: x.hs.Tag, Handle: x.hs.ID})
	simrt.Gate("ds.rclose", fmt.Sprintf("%s#%d", x.hs.Ptr, x.hs.ID), nil)
	x.d.mu.Lock()
	x.hs.Closes++
	n := x.hs.Closes
	if n == 1 {
		x.hs.ClosedAt = x.d.r.Step
	}
	x.d.mu.Unlock()
	if n > 1 {
		x.d.misuse("handle %d (%s, %s) closed %d times", x.hs.ID, x.hs.Ptr, x.hs.Tag, n)
	}
	x.d.endCall(c, 0, nil)
	return nil
}

func (d *SimDisk) TombstoneFile(ctx context.Context, ptr []byte) error {
	c := d.logCall(&Call{Kind: "tomb", Ptr: string(ptr), Tag: tagOf(ctx)})
	dec := simrt.Gate("ds.tomb", string(ptr), ctx)
	switch dec.Fault {
	case FErr, FLateErr, FShort:
		err := d.inject("ds.tomb", string(ptr))
		d.endCall(c, 0, err)
		return err
	case FCtx:
		d.endCall(c, 0, ctx.Err())
		return ctx.Err()
	}
	d.mu.Lock()
	if f := d.files[string(ptr)]; f != nil {
		f.tombstoned = true
	}
	d.mu.Unlock()
	d.endCall(c, 0, nil)
	return nil
}

// ---- controller-side inspection (never gated: the controller passes through gates) ----

// Published returns the pointers of files whose Close succeeded and that are not tombstoned.
func (d *SimDisk) Published() []string {
	d.mu.Lock()
	defer d.mu.Unlock()
	var out []string
	for p, f := range d.files {
		if f.published && !f.tombstoned {
			out = append(out, p)
		}
	}
	sort.Strings(out)
	return out
}

func (d *SimDisk) FileBytes(ptr string) ([]byte, bool) {
	d.mu.Lock()
	defer d.mu.Unlock()
	f := d.files[ptr]
	if f == nil || !f.published {
		return nil, false
	}
	return f.data, true
}

// SetFileBytes replaces a published file's content (corruption injection). Open handles keep
// the bytes they were opened on unless live is true.
func (d *SimDisk) SetFileBytes(ptr string, data []byte) {
	d.mu.Lock()
	defer d.mu.Unlock()
	if f := d.files[ptr]; f != nil {
		f.data = data
	}
}

func (d *SimDisk) IsTombstoned(ptr string) bool {
	d.mu.Lock()
	defer d.mu.Unlock()
	f := d.files[ptr]
	return f != nil && f.tombstoned
}

// CallsSnapshot returns a copy of the call log.
func (d *SimDisk) CallsSnapshot() []Call {
	d.mu.Lock()
	defer d.mu.Unlock()
	out := make([]Call, len(d.Calls))
	for i, c := range d.Calls {
		out[i] = *c
	}
	return out
}

// QueryReadsInFlight sums the in-progress reads attributed to tags with the given prefix.
func (d *SimDisk) QueryReadsInFlight(prefix string) int {
	d.mu.Lock()
	defer d.mu.Unlock()
	n := 0
	for tag, c := range d.ReadsInFlight {
		if len(tag) >= len(prefix) && tag[:len(prefix)] == prefix {
			n += c
		}
	}
	return n
}

// HandleStates returns copies of the per-handle monitors.
func (d *SimDisk) HandleStates() []HandleState {
	d.mu.Lock()
	defer d.mu.Unlock()
	out := make([]HandleState, 0, len(d.Handles))
	for _, h := range d.Handles {
		out = append(out, *h)
	}
	sort.Slice(out, func(i, j int) bool { return out[i].ID < out[j].ID })
	return out
}

func (d *SimDisk) MisuseList() []string {
	d.mu.Lock()
	defer d.mu.Unlock()
	return append([]string(nil), d.Misuse...)
}
