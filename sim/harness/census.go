package harness

import (
	"bytes"
	"context"
	"encoding/json"
	"fmt"
	"sort"

	bs "github.com/danthegoodman1/bloomsearch"
)

// Physical view of the stores (DESIGN.md §4.3), read through the public helpers only, by the
// controller (whose store calls pass through every gate).

type BlockView struct {
	Ptr     string
	Meta    bs.DataBlockMetadata
	Rows    [][]byte // marshaled rows, in block order
	IDs     []string // _id of each row ("" when absent)
	Filters *bs.BloomFilters
	Err     error
}

type FileView struct {
	Ptr    string
	Meta   *bs.FileMetadata
	Size   int64
	Blocks []BlockView
	Err    error
}

func rowID(row []byte) string {
	var v struct {
		ID any `json:"_id"`
	}
	if err := json.Unmarshal(row, &v); err != nil {
		return ""
	}
	switch x := v.ID.(type) {
	case string:
		return x
	case nil:
		return ""
	default:
		return fmt.Sprint(x)
	}
}

// ReadFileView reads one file completely: footer, every block's rows and filters.
func ReadFileView(ds bs.DataStore, ptr string, withFilters bool) FileView {
	fv := FileView{Ptr: ptr}
	h, err := ds.OpenFile(context.Background(), []byte(ptr))
	if err != nil {
		fv.Err = fmt.Errorf("open: %w", err)
		return fv
	}
	defer h.Close()
	md, size, err := bs.ReadFileMetadata(h)
	if err != nil {
		fv.Err = fmt.Errorf("metadata: %w", err)
		return fv
	}
	fv.Meta = md
	fv.Size = size
	for i := range md.DataBlocks {
		fv.Blocks = append(fv.Blocks, readBlockView(h, ptr, md.DataBlocks[i], withFilters))
	}
	return fv
}

func readBlockView(h interface {
	Read([]byte) (int, error)
	Seek(int64, int) (int64, error)
}, ptr string, b bs.DataBlockMetadata, withFilters bool) BlockView {
	bv := BlockView{Ptr: ptr, Meta: b}
	data, err := bs.ReadDataBlockRowData(h, &b)
	if err != nil {
		bv.Err = fmt.Errorf("row data: %w", err)
		return bv
	}
	sc := bs.NewBlockRowScanner(data)
	for {
		row, ok, err := sc.Next()
		if err != nil {
			bv.Err = fmt.Errorf("scan: %w", err)
			return bv
		}
		if !ok {
			break
		}
		bv.Rows = append(bv.Rows, row)
		bv.IDs = append(bv.IDs, rowID(row))
	}
	if withFilters {
		f, err := bs.ReadDataBlockBloomFilters(h, b)
		if err != nil {
			bv.Err = fmt.Errorf("filters: %w", err)
			return bv
		}
		bv.Filters = f
	}
	return bv
}

// ViewFromBytes parses a complete file image without touching any store.
func ViewFromBytes(ptr string, data []byte, withFilters bool) FileView {
	fv := FileView{Ptr: ptr}
	h := bytes.NewReader(data)
	md, size, err := bs.ReadFileMetadata(h)
	if err != nil {
		fv.Err = fmt.Errorf("metadata: %w", err)
		return fv
	}
	fv.Meta = md
	fv.Size = size
	for i := range md.DataBlocks {
		fv.Blocks = append(fv.Blocks, readBlockView(h, ptr, md.DataBlocks[i], withFilters))
	}
	return fv
}

// MetaFile is one file as the MetaStore reports it.
type MetaFile struct {
	Ptr  string
	Meta bs.FileMetadata
}

// ListMeta drains GetMaybeFilesForQuery(nil) (controller only).
func ListMeta(ms bs.MetaStore) ([]MetaFile, error) {
	var out []MetaFile
	for f, err := range ms.GetMaybeFilesForQuery(context.Background(), nil) {
		if err != nil {
			return out, err
		}
		out = append(out, MetaFile{Ptr: string(f.PointerBytes), Meta: f.Metadata})
	}
	sort.Slice(out, func(i, j int) bool { return out[i].Ptr < out[j].Ptr })
	return out, nil
}

// Census is the set of files the MetaStore references, each read completely from the DataStore
// using the MetaStore's metadata for block locations.
type Census struct {
	Files []FileView
	IDs   map[string]int    // _id -> multiplicity over all referenced blocks
	Where map[string]string // _id -> "ptr@offset" of one holding block
	Err   error
}

func TakeCensus(ms bs.MetaStore, ds bs.DataStore, withFilters bool) *Census {
	c := &Census{IDs: map[string]int{}, Where: map[string]string{}}
	metas, err := ListMeta(ms)
	if err != nil {
		c.Err = err
		return c
	}
	for _, mf := range metas {
		fv := FileView{Ptr: mf.Ptr}
		md := mf.Meta
		fv.Meta = &md
		h, err := ds.OpenFile(context.Background(), []byte(mf.Ptr))
		if err != nil {
			fv.Err = fmt.Errorf("open: %w", err)
			c.Files = append(c.Files, fv)
			continue
		}
		for i := range md.DataBlocks {
			bv := readBlockView(h, mf.Ptr, md.DataBlocks[i], withFilters)
			fv.Blocks = append(fv.Blocks, bv)
			for _, id := range bv.IDs {
				c.IDs[id]++
				c.Where[id] = fmt.Sprintf("%s@%d", mf.Ptr, bv.Meta.RowDataOffset)
			}
		}
		h.Close()
		c.Files = append(c.Files, fv)
	}
	return c
}

// QueryAll runs q on engine e from the controller and returns the rows, the terminal error and
// the stats. Gates pass through for the controller's own goroutine only, so callers switch the
// mode off around it.
func QueryAll(e *bs.BloomSearchEngine, ctx context.Context, q *bs.Query) ([]map[string]any, error, bs.QueryStats) {
	res, err := e.Query(ctx, q)
	if err != nil {
		return nil, err, bs.QueryStats{}
	}
	var rows []map[string]any
	for res.Next() {
		rows = append(rows, res.Row())
	}
	qerr := res.Err()
	st := res.Stats()
	res.Close()
	return rows, qerr, st
}

func idOfRow(row map[string]any) string {
	switch x := row["_id"].(type) {
	case string:
		return x
	case nil:
		return ""
	default:
		return fmt.Sprint(x)
	}
}
