package harness

import (
	"context"
	"encoding/json"
	"fmt"
	"math"
	"reflect"
	"regexp"
	"sort"
	"strings"
	"time"

	bs "github.com/danthegoodman1/bloomsearch"
	"verifsim/simrt"
)

// S-content: read-path content scenario (DESIGN.md §5). Serves C01 C02 C03 C04 C17 C18 C23 C24.

type contentPhase struct {
	Compression string   `json:"compression"`
	ZstdLevel   int      `json:"zstd_level,omitempty"`
	FPRate      float64  `json:"fp_rate"`
	RGRows      int      `json:"rg_rows"`
	RGBytes     int      `json:"rg_bytes"`
	BufRows     int      `json:"buf_rows"`
	BufBytes    int      `json:"buf_bytes"`
	BufMs       int      `json:"buf_ms"`
	Partition   int      `json:"partition"`
	MinMaxKeys  []string `json:"minmax_keys"`
	Batches     [][]int  `json:"batches"` // each batch: row indexes (into the run's row list)
	FlushAfter  []bool   `json:"flush_after"`
	SleepAfter  []int    `json:"sleep_after_ms"`
	Merges      int      `json:"merges"`
	MergeFiles  int      `json:"merge_files"`
	MaxFileSize int      `json:"max_file_size"`
	ConcMerge   int      `json:"concurrent_merges,omitempty"` // Merge calls issued by a second actor while batches are being ingested
}

type contentWorkload struct {
	Tokenizer string         `json:"tokenizer"`
	TokIdx    int            `json:"tok_idx"`
	TokYield  int            `json:"tok_yield,omitempty"` // >0: the configured tokenizer is a scheduling point every n-th call
	Phases    []contentPhase `json:"phases"`
	NRows     int            `json:"n_rows"`
	External  []int          `json:"external_rows,omitempty"` // rows written by the external writer (no filters)
	ExtFilter bool           `json:"external_with_filters,omitempty"`
	NQueries  int            `json:"n_queries"`
	QClients  int            `json:"query_clients"`
	QConc     int            `json:"max_query_concurrency"`
	MetaBug   MetaBuggify    `json:"meta_buggify"`
	RealMeta  bool           `json:"real_memory_metastore"`
	Rows      []string       `json:"rows,omitempty"`    // marshaled rows (samples only)
	Queries   []string       `json:"queries,omitempty"` // marshaled queries
}

type queryRun struct {
	Idx      int
	Tag      string
	Q        *bs.Query
	Rows     []map[string]any // as delivered (originals)
	Copies   []map[string]any // deep copies taken at delivery
	Err      error
	Stats    bs.QueryStats
	Invoke   int
	Return   int
	Client   int
	QueryErr error // error returned by Query itself
}

type contentState struct {
	r        *Run
	wl       *contentWorkload
	tok      tokenizerChoice
	rows     []*RowInfo
	byID     map[string]*RowInfo
	disk     *SimDisk
	simMeta  *SimMeta
	gmeta    *GatedMeta
	meta     bs.MetaStore
	fpRates  map[float64]bool
	checked  map[string]bool // files already truth-checked
	external map[string]bool
	writerFP map[string]float64
	curFP    float64
	queries  []*queryRun
	acks     map[string]error
	writerOK bool
}

func deepCopyValue(v any) any {
	switch x := v.(type) {
	case map[string]any:
		m := make(map[string]any, len(x))
		for k, e := range x {
			m[strings.Clone(k)] = deepCopyValue(e)
		}
		return m
	case []any:
		a := make([]any, len(x))
		for i, e := range x {
			a[i] = deepCopyValue(e)
		}
		return a
	case string:
		return strings.Clone(x)
	default:
		return x
	}
}

func scribble(v any) {
	switch x := v.(type) {
	case map[string]any:
		for k, e := range x {
			scribble(e)
			switch e.(type) {
			case string:
				x[k] = "SCRIBBLED"
			case float64:
				x[k] = -12345.678
			case bool:
				x[k] = !e.(bool)
			}
		}
		x["__scribble__"] = "x"
	case []any:
		for i, e := range x {
			scribble(e)
			switch e.(type) {
			case string:
				x[i] = "SCRIBBLED"
			case float64:
				x[i] = -1.0
			}
		}
	}
}

func genContentWorkload(w *Tape) *contentWorkload {
	wl := &contentWorkload{}
	wl.TokIdx = []int{0, 0, 0, 1, 2, 3, 4}[w.Draw(7)]
	wl.Tokenizer = tokenizerByIndex(wl.TokIdx).Name
	wl.NRows = w.Range(4, 40)
	nph := w.Range(1, 3)
	next := 0
	for p := 0; p < nph; p++ {
		ph := contentPhase{
			Compression: []string{"none", "snappy", "zstd"}[w.Draw(3)],
			ZstdLevel:   []int{1, 2, 3, 4}[w.Draw(4)], // levels above 4 make every ingest fail ("unknown encoder level"): see DESIGN.md, observations
			FPRate:      []float64{0.5, 0.3, 0.05, 0.001}[w.Draw(4)],
			RGRows:      w.Range(1, 12),
			RGBytes:     []int{150, 1500, 1 << 20}[w.Draw(3)],
			BufRows:     w.Range(2, 30),
			BufBytes:    []int{300, 3000, 1 << 20}[w.Draw(3)],
			BufMs:       []int{200, 1000, 10000}[w.Draw(3)],
			Partition:   w.Draw(4),
			Merges:      []int{0, 0, 1, 2}[w.Draw(4)],
			MergeFiles:  w.Range(2, 6),
			MaxFileSize: []int{1500, 20000, 1 << 30}[w.Draw(3)],
			ConcMerge:   []int{0, 0, 0, 1, 2, 3}[w.Draw(6)],
		}
		for _, k := range genMinMaxKeys {
			if w.Draw(3) != 0 {
				ph.MinMaxKeys = append(ph.MinMaxKeys, k)
			}
		}
		remainingPhases := nph - p
		quota := (wl.NRows - next) / remainingPhases
		if p == nph-1 {
			quota = wl.NRows - next
		}
		for quota > 0 {
			n := 1 + w.Draw(min(quota, 8))
			var b []int
			for i := 0; i < n; i++ {
				b = append(b, next)
				next++
			}
			quota -= n
			ph.Batches = append(ph.Batches, b)
			ph.FlushAfter = append(ph.FlushAfter, w.Draw(3) == 0)
			ph.SleepAfter = append(ph.SleepAfter, []int{0, 0, 0, 150, 1200}[w.Draw(5)])
		}
		wl.Phases = append(wl.Phases, ph)
	}
	if w.Draw(4) == 0 {
		n := w.Range(1, 5)
		for i := 0; i < n; i++ {
			wl.External = append(wl.External, wl.NRows+i)
		}
		wl.ExtFilter = w.Bool()
	}
	wl.NQueries = w.Range(8, 40)
	wl.QClients = w.Range(1, 3)
	wl.QConc = []int{1, 2, 3, 8}[w.Draw(4)]
	wl.RealMeta = w.Draw(4) == 0
	wl.TokYield = []int{0, 0, 1, 3, 7}[w.Draw(5)]
	if !wl.RealMeta {
		wl.MetaBug = MetaBuggify{IgnorePrefilter: w.Draw(3) == 0, FilterBlocks: w.Draw(2) == 0, ReverseBlocks: w.Draw(3) == 0, ReverseFiles: w.Draw(3) == 0, RotateFiles: w.Draw(4)}
	}
	return wl
}

func (st *contentState) engineConfig(ph contentPhase) bs.BloomSearchEngineConfig {
	cfg := bs.DefaultBloomSearchEngineConfig()
	cfg.Tokenizer = st.tok.Fn
	cfg.RowDataCompression = compressionOf(ph.Compression)
	cfg.ZstdCompressionLevel = ph.ZstdLevel
	cfg.BloomFalsePositiveRate = ph.FPRate
	cfg.MaxRowGroupRows = ph.RGRows
	cfg.MaxRowGroupBytes = ph.RGBytes
	cfg.MaxBufferedRows = ph.BufRows
	cfg.MaxBufferedBytes = ph.BufBytes
	cfg.MaxBufferedTime = time.Duration(ph.BufMs) * time.Millisecond
	cfg.IngestBufferSize = 4
	cfg.MaxQueryConcurrency = st.wl.QConc
	cfg.MaxFilesToMergePerOperation = ph.MergeFiles
	cfg.MaxFileSize = ph.MaxFileSize
	cfg.MinMaxIndexes = ph.MinMaxKeys
	_, cfg.PartitionFunc = partitionFuncByIndex(ph.Partition)
	return cfg
}

// writer is the single actor that builds the store history.
func (st *contentState) writer() {
	r := st.r
	for pi, ph := range st.wl.Phases {
		cfg := st.engineConfig(ph)
		st.curFP = ph.FPRate
		eng, err := bs.NewBloomSearchEngine(cfg, st.meta, st.disk)
		if err != nil {
			panic(err)
		}
		eng.Start()
		var chans []chan error
		var ids [][]string
		mergerDone := make(chan struct{})
		if ph.ConcMerge > 0 {
			// Merge shares per-engine state with the ingest actor (codec pools, scratch): let it
			// overlap the indexing of incoming batches.
			r.Probe("content.merge-overlapping-ingest")
			simrt.GoNamed(fmt.Sprintf("merger%d", pi), func() {
				defer close(mergerDone)
				for m := 0; m < ph.ConcMerge; m++ {
					simrt.Gate("op", fmt.Sprintf("phase%d concurrent merge%d", pi, m), nil)
					stats, err := eng.Merge(WithTag(context.Background(), fmt.Sprintf("cmerge-%d-%d", pi, m)))
					if err == nil && stats != nil && stats.FilesProcessed > 0 {
						r.Probe("content.merge-did-work")
					}
				}
			})
		} else {
			close(mergerDone)
		}
		for bi, batch := range ph.Batches {
			simrt.Gate("op", fmt.Sprintf("phase%d batch%d", pi, bi), nil)
			var rows []map[string]any
			var bid []string
			for _, ri := range batch {
				info := st.rows[ri]
				info.Phase = pi
				if cfg.PartitionFunc != nil {
					info.Pid = cfg.PartitionFunc(info.Row)
				}
				info.Indexed = map[string]any{}
				for _, k := range ph.MinMaxKeys {
					if v, ok := info.Row[k]; ok {
						if _, isNum := numExact(v); isNum {
							info.Indexed[k] = v
						}
					}
				}
				rows = append(rows, info.Row)
				bid = append(bid, info.ID)
			}
			ch := make(chan error, 2)
			if err := eng.IngestRows(context.Background(), rows, ch); err != nil {
				r.Logf("writer: IngestRows failed: %v", err)
				return
			}
			chans = append(chans, ch)
			ids = append(ids, bid)
			if ph.FlushAfter[bi] {
				if err := eng.Flush(WithTag(context.Background(), "flush")); err != nil {
					r.Logf("writer: Flush failed: %v", err)
				}
			}
			if ms := ph.SleepAfter[bi]; ms > 0 {
				time.Sleep(time.Duration(ms) * time.Millisecond)
			}
		}
		if err := eng.Flush(WithTag(context.Background(), "flush")); err != nil {
			r.Logf("writer: final Flush failed: %v", err)
		}
		for i, ch := range chans {
			err := <-ch
			for _, id := range ids[i] {
				st.acks[id] = err
			}
			if err != nil {
				r.Logf("writer: batch %v answered %v", ids[i], err)
			}
		}
		<-mergerDone
		for m := 0; m < ph.Merges; m++ {
			simrt.Gate("op", fmt.Sprintf("phase%d merge%d", pi, m), nil)
			stats, err := eng.Merge(WithTag(context.Background(), fmt.Sprintf("merge-%d-%d", pi, m)))
			if err != nil {
				r.Logf("writer: Merge failed: %v", err)
			} else if stats != nil && stats.FilesProcessed > 0 {
				r.Probe("content.merge-did-work")
			}
		}
		if err := eng.Stop(context.Background()); err != nil {
			r.Logf("writer: Stop failed: %v", err)
		}
		st.checkNewFiles() // while curFP still names this phase's writer configuration
	}
	if len(st.wl.External) > 0 {
		simrt.Gate("op", "external writer", nil)
		st.writeExternal()
	}
	st.writerOK = true
}

// writeExternal writes one file the way an external producer would: row data blocks written by
// hand in the documented layout, footer through the public WriteFileFooter, filters absent (or
// present when ExtFilter), no partition ids, no minmax indexes, no row data hash.
func (st *contentState) writeExternal() {
	ctx := WithTag(context.Background(), "external")
	wr, ptr, err := st.disk.CreateFile(ctx)
	if err != nil {
		st.r.Logf("external: create failed: %v", err)
		return
	}
	md := bs.FileMetadata{BloomFalsePositiveRate: 0.01}
	off := 0
	var entries [3]map[string]bool
	for i := range entries {
		entries[i] = map[string]bool{}
	}
	// two blocks at most
	groups := [][]int{st.wl.External}
	if len(st.wl.External) > 2 {
		h := len(st.wl.External) / 2
		groups = [][]int{st.wl.External[:h], st.wl.External[h:]}
	}
	for _, g := range groups {
		var buf []byte
		for _, ri := range g {
			info := st.rows[ri]
			info.Phase = -1
			info.Pid = ""
			info.Indexed = map[string]any{}
			var l [4]byte
			l[0], l[1], l[2], l[3] = byte(len(info.Raw)), byte(len(info.Raw)>>8), byte(len(info.Raw)>>16), byte(len(info.Raw)>>24)
			buf = append(buf, l[:]...)
			buf = append(buf, info.Raw...)
			st.acks[info.ID] = nil
		}
		if _, err := wr.Write(buf); err != nil {
			st.r.Logf("external: write failed: %v", err)
			return
		}
		comp := bs.CompressionNone
		if st.wl.ExtFilter {
			comp = "" // legacy files carry the empty compression value, documented as equal to "none"
		}
		md.DataBlocks = append(md.DataBlocks, bs.DataBlockMetadata{RowDataOffset: off, RowDataSize: len(buf), Rows: len(g), Compression: comp, UncompressedSize: len(buf)})
		off += len(buf)
	}
	md.BlockFilterRegionOffset = off
	md.BlockFilterRegionSize = 0
	if err := bs.WriteFileFooter(wr, &md); err != nil {
		st.r.Logf("external: footer failed: %v", err)
		return
	}
	if err := wr.Close(); err != nil {
		st.r.Logf("external: close failed: %v", err)
		return
	}
	st.external[string(ptr)] = true
	if err := st.meta.Update(ctx, []bs.WriteOperation{{FileMetadata: &md, FilePointerBytes: ptr}}, nil); err != nil {
		st.r.Logf("external: update failed: %v", err)
	}
	st.r.Probe("content.external-file")
}

// checkNewFiles truth-checks every file the first time it is seen published (C17/C18), including
// files that a later merge removes.
func (st *contentState) checkNewFiles() {
	for _, ptr := range st.disk.Published() {
		if st.checked[ptr] {
			continue
		}
		st.checked[ptr] = true
		data, ok := st.disk.FileBytes(ptr)
		if !ok {
			continue
		}
		if _, ok := st.writerFP[ptr]; !ok {
			st.writerFP[ptr] = st.curFP
		}
		CheckFileTruth(st.r, ptr, data, fileTruthOpts{Rows: st.byID, FPRates: st.fpRates, WriterRate: st.writerFP[ptr], External: st.external[ptr]})
		st.r.Probe("content.files-checked")
	}
}

func (st *contentState) queryClient(ci int, qs []*queryRun, eng *bs.BloomSearchEngine) {
	r := st.r
	for _, qr := range qs {
		simrt.Gate("op", qr.Tag, nil)
		qr.Client = ci
		qr.Invoke = r.Step
		res, err := eng.Query(WithTag(context.Background(), qr.Tag), qr.Q)
		if err != nil {
			qr.QueryErr = err
			qr.Return = r.Step
			continue
		}
		for res.Next() {
			row := res.Row()
			qr.Rows = append(qr.Rows, row)
			qr.Copies = append(qr.Copies, deepCopyValue(row).(map[string]any))
		}
		qr.Err = res.Err()
		qr.Stats = res.Stats()
		res.Close()
		qr.Return = r.Step
		r.Logf("query %s -> %d rows err=%v", qr.Tag, len(qr.Rows), qr.Err)
	}
}

// RunContent executes one S-content run.
func RunContent(r *Run, variant string) {
	w := r.W
	wl := genContentWorkload(w)
	st := &contentState{r: r, wl: wl, byID: map[string]*RowInfo{}, fpRates: map[float64]bool{}, checked: map[string]bool{}, external: map[string]bool{},
		writerFP: map[string]float64{}, acks: map[string]error{}}
	st.tok = tokenizerByIndex(wl.TokIdx)
	if wl.TokYield > 0 {
		// The tokenizer is caller-supplied code and may block or be descheduled: make it a
		// scheduling point (in fine mode), so that block scans of one query interleave in the
		// middle of matching a row. The oracle side keeps calling the plain function.
		base, calls, stride := st.tok.Fn, 0, wl.TokYield
		st.tok.Fn = func(text string) []string {
			calls++
			if calls%stride == 0 {
				simrt.Yield("user.tokenizer")
			}
			return base(text)
		}
	}
	total := wl.NRows + len(wl.External)
	for i := 0; i < total; i++ {
		id := fmt.Sprintf("r%03d", i)
		row := genRow(w, id)
		// Near neighbours: a value that differs from the previous row's by a fraction or by one
		// lands in the same block as its neighbour and moves (or must move) a range bound by the
		// smallest possible amount — where incremental range maintenance goes wrong.
		if i > 0 && w.Draw(4) == 0 {
			prev := st.rows[i-1].Row
			k := genMinMaxKeys[w.Draw(len(genMinMaxKeys))]
			if pv, ok := numExact(prev[k]); ok {
				if f, _ := pv.Float64(); math.Abs(f) < 1e15 {
					row[k] = f + []float64{0.5, -0.5, 0.25, 1, -1, 0.999}[w.Draw(6)]
					if w.Bool() {
						row["p"] = prev["p"]
					}
				}
			}
		}
		raw, err := json.Marshal(row)
		if err != nil {
			row = map[string]any{"_id": id, "msg": "fallback"}
			raw, _ = json.Marshal(row)
		}
		info := &RowInfo{ID: id, Row: row, Raw: raw, Spec: BuildSpecRow(raw, st.tok.Spec)}
		if info.Spec.Err != nil {
			panic(fmt.Sprintf("spec cannot walk %s: %v", raw, info.Spec.Err))
		}
		st.rows = append(st.rows, info)
		st.byID[id] = info
	}
	for _, ph := range wl.Phases {
		st.fpRates[ph.FPRate] = true
	}
	st.disk = NewSimDisk(r)
	if wl.RealMeta {
		st.gmeta = NewGatedMeta(r, bs.NewMemoryMetaStore())
		st.meta = st.gmeta
	} else {
		st.simMeta = NewSimMeta(r)
		st.meta = st.simMeta
	}
	r.SetupPolicy(false, 600)
	r.Faults.Off = true
	r.MaxSteps = 120000
	simrt.SetMode(simrt.ModeCoarse)
	if wl.TokYield > 0 {
		// The store history is built with the tokenizer as the only yield site: indexing a row
		// can be descheduled in the middle (by user code) while a concurrent Merge indexes its own.
		simrt.SetYieldEnabled(func(site string) bool { return site == "user.tokenizer" })
		simrt.SetMode(simrt.ModeFine)
	}
	r.OnStep = st.checkNewFiles

	// ---- phase 1: build the store history ----
	done := false
	simrt.GoNamed("writer", func() { st.writer(); done = true })
	r.Loop(func() bool { return done }, 120*time.Second)
	st.checkNewFiles()
	if !done || !st.writerOK || r.Budget {
		r.Budget = true
		r.Teardown(nil)
		if len(simrt.AliveNames()) > 0 {
			r.Dirty = true
		}
		return
	}
	for id, err := range st.acks {
		if err != nil {
			r.Violate("C06", "fault-free-batch-failed", "row %s was answered %v although no fault was injected", id, err)
		}
	}

	// ---- phase 2: queries ----
	if st.simMeta != nil {
		st.simMeta.Bug = wl.MetaBug
	}
	if r.S.Draw(3) == 0 || wl.TokYield > 0 {
		// Fine-grained interleaving of concurrent block scans (pooled buffers, batching, handles).
		simrt.SetYieldEnabled(func(site string) bool {
			return strings.HasPrefix(site, "query_") || strings.HasPrefix(site, "file_format") || strings.HasPrefix(site, "codec_pool") || site == "start" || site == "user.tokenizer"
		})
		simrt.SetMode(simrt.ModeFine)
		r.Probe("content.fine-queries")
		if wl.TokYield > 0 {
			r.Probe("content.tokenizer-yields")
		}
	}
	var specs []*SpecRow
	values := map[string][]int64{}
	for _, ri := range st.rows {
		specs = append(specs, ri.Spec)
		for k, v := range ri.Indexed {
			if lo, hi, ok := expectedRange(v); ok {
				values[k] = append(values[k], lo)
				if hi != lo {
					values[k] = append(values[k], hi)
				}
			}
		}
	}
	pool := buildEntryPool(specs, w, 60)
	last := wl.Phases[len(wl.Phases)-1]
	qcfg := st.engineConfig(last)
	qeng, err := bs.NewBloomSearchEngine(qcfg, st.meta, st.disk)
	if err != nil {
		panic(err)
	}
	for i := 0; i < wl.NQueries; i++ {
		q := genQuery(w, pool, values)
		st.queries = append(st.queries, &queryRun{Idx: i, Tag: fmt.Sprintf("q%03d", i), Q: q})
	}
	if r.Seed%50 == 0 || r.Keep {
		for _, ri := range st.rows {
			wl.Rows = append(wl.Rows, string(ri.Raw))
		}
		for _, qr := range st.queries {
			wl.Queries = append(wl.Queries, describeQuery(qr.Q))
		}
	}
	r.Samples = append(r.Samples, wl)
	startCalls := len(st.disk.CallsSnapshot())
	finished := 0
	for ci := 0; ci < wl.QClients; ci++ {
		ci := ci
		var mine []*queryRun
		for i, qr := range st.queries {
			if i%wl.QClients == ci {
				mine = append(mine, qr)
			}
		}
		simrt.GoNamed(fmt.Sprintf("qclient%d", ci), func() { st.queryClient(ci, mine, qeng); finished++ })
	}
	r.Loop(func() bool { return finished == wl.QClients }, 60*time.Second)
	if finished != wl.QClients || r.Budget {
		r.Budget = true
		if !r.Teardown(nil) {
			r.Dirty = true
		}
		return
	}

	// ---- oracles ----
	simrt.SetMode(simrt.ModeOff)
	st.evaluate(startCalls, qeng)
	if !r.Teardown(nil) {
		r.Dirty = true
	}
}

type blockKey struct {
	ptr string
	off int
}

func (st *contentState) evaluate(startCalls int, qeng *bs.BloomSearchEngine) {
	r := st.r
	census := TakeCensus(st.meta, st.disk, true)
	if census.Err != nil {
		r.Violate("C17", "census-failed", "listing the MetaStore failed: %v", census.Err)
		return
	}
	// Stored rows and the blocks holding them.
	type storedBlock struct {
		key  blockKey
		meta bs.DataBlockMetadata
		ids  []string
		fv   *FileView
		filt *bs.BloomFilters
	}
	var blocks []*storedBlock
	blockOf := map[string]*storedBlock{}
	fileMeta := map[string]*bs.FileMetadata{}
	for fi := range census.Files {
		fv := &census.Files[fi]
		fileMeta[fv.Ptr] = fv.Meta
		if fv.Err != nil {
			r.Violate("C17", "referenced-file-unreadable", "file %s referenced by the MetaStore cannot be opened: %v", fv.Ptr, fv.Err)
			continue
		}
		for _, bv := range fv.Blocks {
			if bv.Err != nil {
				r.Violate("C17", "referenced-block-unreadable", "block %s@%d cannot be read: %v", fv.Ptr, bv.Meta.RowDataOffset, bv.Err)
				continue
			}
			sb := &storedBlock{key: blockKey{fv.Ptr, bv.Meta.RowDataOffset}, meta: bv.Meta, ids: bv.IDs, fv: fv, filt: bv.Filters}
			blocks = append(blocks, sb)
			for _, id := range bv.IDs {
				if blockOf[id] != nil {
					r.Violate("C11", "row-stored-twice", "row %q is stored in %v and in %v", id, blockOf[id].key, sb.key)
				}
				blockOf[id] = sb
			}
		}
	}
	for _, ri := range st.rows {
		if st.acks[ri.ID] == nil && blockOf[ri.ID] == nil {
			if _, acked := st.acks[ri.ID]; acked {
				r.Violate("C06", "acked-row-not-stored", "row %s was acknowledged but no referenced block holds it", ri.ID)
			}
		}
	}
	if len(blocks) > 1 {
		r.NonTriv["C01"], r.NonTriv["C02"], r.NonTriv["C17"], r.NonTriv["C18"] = true, true, true, true
	}
	r.ProbeN("content.blocks", len(blocks))
	r.ProbeN("content.files", len(census.Files))

	// C04 on metadata directly: the public evaluator never rejects a block holding a satisfying row.
	reCache := map[string]*regexp.Regexp{}
	calls := st.disk.CallsSnapshot()[startCalls:]
	callsByTag := map[string][]Call{}
	for _, c := range calls {
		callsByTag[c.Tag] = append(callsByTag[c.Tag], c)
	}

	for _, qr := range st.queries {
		q := qr.Q
		if qr.QueryErr != nil {
			r.Violate("C01", "query-rejected", "Query(%s) returned an error for a generated query without unknown regex nodes: %v", describeQuery(q), qr.QueryErr)
			continue
		}
		if qr.Err != nil {
			// No store call failed in this scenario, so nothing excuses a missing row: the checks
			// below go on (a spurious internal failure that loses rows is a C01 violation).
			r.Violate("C20", "fault-free-query-error", "query %s finished with error %v although no fault was injected", qr.Tag, qr.Err)
		}
		var pf *bs.QueryPrefilter
		if q != nil {
			pf = q.Prefilter
		}
		hasPF := pf != nil && pf.Expression != nil
		hasBloomOrRegex := q != nil && ((q.Bloom != nil && q.Bloom.Expression != nil) || (q.Regex != nil && q.Regex.Expression != nil))

		// Spec verdict per stored row.
		matching := map[string]bool{}
		for id := range blockOf {
			ri := st.byID[id]
			if ri != nil && ri.Spec.MatchQuery(q, reCache) {
				matching[id] = true
			}
		}
		got := map[string]int{}
		for i, row := range qr.Copies {
			id := idOfRow(row)
			got[id]++
			ri := st.byID[id]
			// ---- C02: only stored, matching rows, at most once ----
			if ri == nil || blockOf[id] == nil {
				r.Violate("C02", "unknown-row-returned", "query %s returned a row with _id %q that is not stored", qr.Tag, id)
				continue
			}
			if got[id] > 1 {
				r.Violate("C02", "row-returned-twice", "query %s returned row %q %d times; it is stored once", qr.Tag, id, got[id])
			}
			if !matching[id] {
				r.Violate("C02", "non-matching-row-returned", "query %s = %s returned row %s = %s, which does not satisfy it under the documented semantics", qr.Tag, describeQuery(q), id, trunc(ri.Raw))
			}
			// ---- C03: faithful ----
			var want map[string]any
			if err := json.Unmarshal(ri.Raw, &want); err == nil {
				if !reflect.DeepEqual(want, row) {
					kind := "row-not-faithful"
					if hasDuplicateKeys(ri.Raw) {
						kind = "row-not-faithful-duplicate-keys"
					}
					r.Violate("C03", kind, "query %s returned row %s as %v; JSON round trip of the ingested row is %v", qr.Tag, id, row, want)
				}
				if !reflect.DeepEqual(qr.Rows[i], row) {
					r.Violate("C03", "row-changed-after-delivery", "row %s returned by query %s changed after it was delivered (aliasing): now %v, at delivery %v", id, qr.Tag, qr.Rows[i], row)
				}
			}
		}
		if len(matching) > 0 {
			r.NonTriv["C03"] = true
		}
		// ---- C01 / C04: no false negatives ----
		for id := range matching {
			ri := st.byID[id]
			if !RowSatisfiesPrefilter(pf, ri.Pid, ri.Indexed) {
				continue
			}
			sb := blockOf[id]
			if hasPF && !bs.EvaluateDataBlockMetadata(&sb.meta, pf) {
				r.Violate("C04", "prefilter-prunes-satisfying-row", "prefilter %s rejects block %v (partition %q, minmax %v) although it holds row %s (partition %q, indexed %v) which satisfies it",
					describeQuery(&bs.Query{Prefilter: pf}), sb.key, sb.meta.PartitionID, sb.meta.MinMaxIndexes, id, ri.Pid, fmtIndexed(ri.Indexed))
			}
			if got[id] == 0 {
				prop := "C01"
				if hasPF && !hasBloomOrRegex {
					prop = "C04"
				}
				r.Violate(prop, "matching-row-not-returned", "query %s = %s (Err()=%v, no store fault injected) did not return stored row %s = %s (block %v, partition %q, indexed %v)",
					qr.Tag, describeQuery(q), qr.Err, id, trunc(ri.Raw), sb.key, ri.Pid, fmtIndexed(ri.Indexed))
			}
		}
		// ---- C02: exactness ----
		if !hasPF {
			for id := range matching {
				if got[id] == 0 {
					r.Violate("C02", "result-not-exact", "query %s (no prefilter) = %s misses matching row %s", qr.Tag, describeQuery(q), id)
				}
			}
		} else {
			for _, sb := range blocks {
				nm, ng := 0, 0
				for _, id := range sb.ids {
					if matching[id] {
						nm++
						if got[id] > 0 {
							ng++
						}
					}
				}
				if nm == 0 {
					continue
				}
				if ng != 0 && ng != nm {
					r.Violate("C02", "block-partially-returned", "query %s returned %d of the %d matching rows of block %v: prefilters are block-granular", qr.Tag, ng, nm, sb.key)
				}
				lower, upper := BlockLower(pf, &sb.meta), BlockUpper(pf, &sb.meta)
				if lower && ng != nm {
					r.Violate("C02", "satisfying-block-not-returned", "query %s = %s: block %v (partition %q, minmax %v) satisfies the prefilter but its %d matching rows were not returned",
						qr.Tag, describeQuery(q), sb.key, sb.meta.PartitionID, sb.meta.MinMaxIndexes, nm)
				}
				if !upper && ng != 0 {
					r.Violate("C02", "block-with-missing-metadata-returned", "query %s = %s returned rows of block %v whose partition/minmax metadata is missing for a condition that references it (partition %q, minmax %v)",
						qr.Tag, describeQuery(q), sb.key, sb.meta.PartitionID, sb.meta.MinMaxIndexes)
				}
			}
			r.NonTriv["C04"] = true
		}
		st.checkStats(qr, pf, census, got)
		st.checkPruning(qr, q, callsByTag[qr.Tag], census, fileMeta)
	}

	// ---- C03: independence. Scribble over the rows of every other query and make sure nothing
	// else moves; then run one more query through the engine.
	for qi, qr := range st.queries {
		if qi%2 == 0 {
			for _, row := range qr.Rows {
				scribble(row)
			}
		}
	}
	for qi, qr := range st.queries {
		if qi%2 == 1 {
			for i := range qr.Rows {
				if !reflect.DeepEqual(qr.Rows[i], qr.Copies[i]) {
					r.Violate("C03", "rows-share-state", "mutating rows returned by other queries changed row %s of query %s: now %v, was %v", idOfRow(qr.Copies[i]), qr.Tag, qr.Rows[i], qr.Copies[i])
				}
			}
		}
	}
	rows, qerr, _ := QueryAll(qeng, context.Background(), nil)
	if qerr != nil {
		r.Violate("C20", "fault-free-query-error", "final match-all query failed: %v", qerr)
	}
	seen := map[string]int{}
	for _, row := range rows {
		id := idOfRow(row)
		seen[id]++
		if ri := st.byID[id]; ri != nil {
			var want map[string]any
			if json.Unmarshal(ri.Raw, &want) == nil && !reflect.DeepEqual(want, row) && !hasDuplicateKeys(ri.Raw) {
				r.Violate("C03", "row-not-faithful-after-mutation", "after earlier results were mutated, a new query returned row %s as %v, expected %v", id, row, want)
			}
		}
	}
	for id := range blockOf {
		if seen[id] != 1 {
			r.Violate("C02", "match-all-not-exact", "match-all query returned stored row %s %d times", id, seen[id])
		}
	}
}

func fmtIndexed(m map[string]any) string {
	var sb strings.Builder
	for _, k := range sortedKeys(m) {
		fmt.Fprintf(&sb, "%s=%v(%T) ", k, m[k], m[k])
	}
	return sb.String()
}

// checkStats applies C23 to one cleanly completed query.
func (st *contentState) checkStats(qr *queryRun, pf *bs.QueryPrefilter, census *Census, got map[string]int) {
	r := st.r
	stt := qr.Stats
	seen := map[blockKey]bs.BlockStats{}
	var sumRows, sumBytes int64
	proc, skip := 0, 0
	for _, b := range stt.BlockStats {
		k := blockKey{string(b.FilePointer), b.BlockOffset}
		if _, dup := seen[k]; dup {
			r.Violate("C23", "block-listed-twice", "query %s lists block %v twice in its stats", qr.Tag, k)
		}
		seen[k] = b
		if b.BloomFilterSkipped {
			skip++
			if b.RowsProcessed != 0 || b.BytesProcessed != 0 {
				r.Violate("C23", "skipped-block-has-work", "query %s: skipped block %v reports %d rows / %d bytes processed", qr.Tag, k, b.RowsProcessed, b.BytesProcessed)
			}
		} else {
			proc++
		}
		sumRows += b.RowsProcessed
		sumBytes += b.BytesProcessed
	}
	if proc != stt.BlocksProcessed || skip != stt.BlocksSkipped {
		r.Violate("C23", "block-totals-mismatch", "query %s: BlocksProcessed=%d BlocksSkipped=%d but the per-block list has %d processed and %d skipped", qr.Tag, stt.BlocksProcessed, stt.BlocksSkipped, proc, skip)
	}
	if sumRows != stt.RowsScanned || sumBytes != stt.BytesScanned {
		r.Violate("C23", "scan-totals-mismatch", "query %s: RowsScanned=%d BytesScanned=%d but per-block sums are %d / %d", qr.Tag, stt.RowsScanned, stt.BytesScanned, sumRows, sumBytes)
	}
	if stt.RowsMatched != int64(len(qr.Rows)) {
		r.Violate("C23", "rows-matched-mismatch", "query %s completed cleanly: RowsMatched=%d but %d rows were returned", qr.Tag, stt.RowsMatched, len(qr.Rows))
	}
	for _, fv := range census.Files {
		if fv.Err != nil {
			continue
		}
		surv, listed := 0, 0
		for _, bv := range fv.Blocks {
			k := blockKey{fv.Ptr, bv.Meta.RowDataOffset}
			m := bv.Meta
			if bs.EvaluateDataBlockMetadata(&m, pf) {
				surv++
				if _, ok := seen[k]; ok {
					listed++
				}
			} else if _, ok := seen[k]; ok {
				r.Violate("C23", "pruned-block-listed", "query %s lists block %v which its prefilter rejects", qr.Tag, k)
			}
			if s, ok := seen[k]; ok && !s.BloomFilterSkipped {
				if bv.Err == nil && s.RowsProcessed != int64(len(bv.Rows)) {
					r.Violate("C23", "rows-processed-mismatch", "query %s completed cleanly: block %v reports %d rows processed, it holds %d", qr.Tag, k, s.RowsProcessed, len(bv.Rows))
				}
			}
			// every block that contributed a returned row is listed as processed
			for _, id := range bv.IDs {
				if got[id] > 0 {
					if s, ok := seen[k]; !ok || s.BloomFilterSkipped {
						r.Violate("C23", "contributing-block-not-processed", "query %s returned row %s from block %v, which its stats do not list as processed", qr.Tag, id, k)
					}
					break
				}
			}
		}
		if listed != 0 && listed != surv {
			r.Violate("C23", "file-partially-listed", "query %s lists %d of the %d prefilter-surviving blocks of file %s", qr.Tag, listed, surv, fv.Ptr)
		}
	}
	if len(stt.BlockStats) > 0 {
		r.NonTriv["C23"] = true
	}
}

// checkPruning applies C24 to one query's attributed store calls.
func (st *contentState) checkPruning(qr *queryRun, q *bs.Query, calls []Call, census *Census, fileMeta map[string]*bs.FileMetadata) {
	r := st.r
	var pf *bs.QueryPrefilter
	var bloom *bs.BloomQuery
	var regex *bs.RegexQuery
	if q != nil {
		pf, bloom, regex = q.Prefilter, q.Bloom, q.Regex
	}
	// Files are held against the bloom expression only ("absent filter cannot disqualify"); blocks
	// also against the regex field-existence guard (see below).
	hasBloom := bloom != nil && bloom.Expression != nil
	noConds := !hasBloom && (regex == nil || regex.Expression == nil)
	hasConds := hasBloom
	prune := func(f *bs.BloomFilters) bool { // true = may contain
		if f == nil || !hasBloom {
			return true
		}
		return bloomMay(bloom.Expression, f)
	}
	opened := map[string]bool{}
	for _, c := range calls {
		if c.Kind == "open" && c.Err == nil {
			opened[c.Ptr] = true
		}
	}
	for _, fv := range census.Files {
		if fv.Err != nil {
			continue
		}
		md := fv.Meta
		fileMay := prune(&md.BloomFilters)
		anySurv := false
		for _, bv := range fv.Blocks {
			m := bv.Meta
			if bs.EvaluateDataBlockMetadata(&m, pf) {
				anySurv = true
			}
		}
		if opened[fv.Ptr] && hasConds && !fileMay {
			r.Violate("C24", "disqualified-file-opened", "query %s = %s opened file %s although its file-level filters rule the query out", qr.Tag, describeQuery(q), fv.Ptr)
		}
		if opened[fv.Ptr] && !anySurv {
			r.Violate("C24", "prefiltered-file-opened", "query %s opened file %s although its prefilter rejects every block of it", qr.Tag, fv.Ptr)
		}
		regionLo, regionHi := int64(md.BlockFilterRegionOffset), int64(md.BlockFilterRegionOffset+md.BlockFilterRegionSize)
		for _, c := range calls {
			if c.Kind != "read" || c.Ptr != fv.Ptr || c.N == 0 {
				continue
			}
			lo, hi := c.Off, c.Off+int64(c.N)
			// inside declared extents
			inRegion := lo >= regionLo && hi <= regionHi
			inBlock := false
			for _, bv := range fv.Blocks {
				blo, bhi := int64(bv.Meta.RowDataOffset), int64(bv.Meta.RowDataOffset+bv.Meta.RowDataSize)
				if lo >= blo && hi <= bhi {
					inBlock = true
				}
				if lo < bhi && blo < hi { // overlaps this block's row data
					m := bv.Meta
					if !bs.EvaluateDataBlockMetadata(&m, pf) {
						r.Violate("C24", "prefiltered-block-read", "query %s read [%d,%d) of %s, inside block@%d which its prefilter rejects", qr.Tag, lo, hi, fv.Ptr, bv.Meta.RowDataOffset)
					} else if hasConds && bv.Filters != nil && !prune(bv.Filters) {
						r.Violate("C24", "bloom-pruned-block-read", "query %s = %s read [%d,%d) of %s, inside block@%d which its block filters rule out", qr.Tag, describeQuery(q), lo, hi, fv.Ptr, bv.Meta.RowDataOffset)
					} else if regex != nil && regex.Expression != nil && bv.Filters != nil && !regexGuardMay(regex.Expression, bv.Filters) {
						// Block level: the block's field filter excludes a field a regex condition
						// needs, so no row of the block can match (the documented field-existence
						// guard). File level stays with the bloom expression, as the statement has it.
						r.Violate("C24", "regex-guard-pruned-block-read", "query %s = %s read [%d,%d) of %s, inside block@%d whose field filter rules out a field its regex needs", qr.Tag, describeQuery(q), lo, hi, fv.Ptr, bv.Meta.RowDataOffset)
					}
				}
			}
			if !inRegion && !inBlock {
				r.Violate("C24", "read-outside-declared-extents", "query %s read [%d,%d) of %s, which lies in neither a row data extent nor the block filter region [%d,%d)", qr.Tag, lo, hi, fv.Ptr, regionLo, regionHi)
			}
			if inRegion && noConds && hi > lo {
				r.Violate("C24", "filter-region-read-without-conditions", "query %s has no bloom or regex conditions but read [%d,%d) of %s's block filter region", qr.Tag, lo, hi, fv.Ptr)
			}
		}
	}
	if len(calls) > 0 {
		r.NonTriv["C24"] = true
	}
}

func regexHasCondition(e *bs.RegexExpression) bool {
	if e == nil {
		return false
	}
	if e.ExpressionType == bs.RegexExpressionCondition {
		return e.Condition != nil
	}
	return true
}

// bloomMay: can a row satisfying e be in a set summarised by filters f (absent filter = maybe)?
func bloomMay(e *bs.BloomExpression, f *bs.BloomFilters) bool {
	if e == nil {
		return true
	}
	switch e.ExpressionType {
	case bs.BloomExpressionCondition:
		c := e.Condition
		if c == nil {
			return true
		}
		switch c.Type {
		case bs.BloomField:
			return f.FieldBloomFilter == nil || f.FieldBloomFilter.TestString(c.Field)
		case bs.BloomToken:
			return f.TokenBloomFilter == nil || f.TokenBloomFilter.TestString(c.Token)
		case bs.BloomFieldToken:
			return f.FieldTokenBloomFilter == nil || f.FieldTokenBloomFilter.TestString(c.Field+"::"+c.Token)
		}
		return false
	case bs.BloomExpressionOr:
		for i := range e.Children {
			if bloomMay(&e.Children[i], f) {
				return true
			}
		}
		return false
	case bs.BloomExpressionAnd:
		for i := range e.Children {
			if !bloomMay(&e.Children[i], f) {
				return false
			}
		}
		return true
	}
	return false
}

// regexGuardMay: the field-existence guard of a regex tree.
func regexGuardMay(e *bs.RegexExpression, f *bs.BloomFilters) bool {
	if e == nil {
		return true
	}
	switch e.ExpressionType {
	case bs.RegexExpressionCondition:
		if e.Condition == nil {
			return true
		}
		return f.FieldBloomFilter == nil || f.FieldBloomFilter.TestString(e.Condition.Field)
	case bs.RegexExpressionOr:
		if len(e.Children) == 0 {
			return true // an empty OR matches nothing; whether the engine still reads is not demanded here
		}
		for i := range e.Children {
			if regexGuardMay(&e.Children[i], f) {
				return true
			}
		}
		return false
	case bs.RegexExpressionAnd:
		for i := range e.Children {
			if !regexGuardMay(&e.Children[i], f) {
				return false
			}
		}
		return true
	}
	return true
}

// hasDuplicateKeys reports whether some object in the JSON text repeats a key (possible only
// through json.RawMessage / custom marshalers).
func hasDuplicateKeys(raw []byte) bool {
	dec := json.NewDecoder(strings.NewReader(string(raw)))
	dec.UseNumber()
	var walk func() bool
	walk = func() bool {
		tok, err := dec.Token()
		if err != nil {
			return false
		}
		d, ok := tok.(json.Delim)
		if !ok {
			return false
		}
		dup := false
		switch d {
		case '{':
			seen := map[string]bool{}
			for dec.More() {
				kt, err := dec.Token()
				if err != nil {
					return dup
				}
				if k, ok := kt.(string); ok {
					if seen[k] {
						dup = true
					}
					seen[k] = true
				}
				if walk() {
					dup = true
				}
			}
			dec.Token()
		case '[':
			for dec.More() {
				if walk() {
					dup = true
				}
			}
			dec.Token()
		}
		return dup
	}
	return walk()
}

func init() {
	otherScenarios["content"] = RunContent
	_ = sort.Strings
}
