package harness

import (
	"bytes"
	"context"
	"encoding/binary"
	"encoding/json"
	"fmt"
	"hash/crc32"
	"io"
	"math"
	"reflect"
	"regexp"
	"time"

	bs "github.com/danthegoodman1/bloomsearch"
	"verifsim/simos"
	"verifsim/simrt"
)

// S-corrupt (DESIGN.md §5): corrupted, truncated, extended and CRC-consistently re-framed files.
// Serves C19.

type corruptWorkload struct {
	Blocks    []int  `json:"rows_per_block"`
	Compress  string `json:"compression"`
	Mode      int    `json:"mode"` // 0 byte-level mutation, metadata held by the MetaStore; 1 CRC-consistent footer rewrite, metadata read from the file
	When      int    `json:"when"` // 0 before the query, 1 while the query runs, 2 before a merge
	Mutation  string `json:"mutation"`
	Detail    string `json:"detail"`
	QueryKind int    `json:"query_kind"`
}

// boundedReader is an io.ReadSeeker over a byte slice that records reads no correct reader of a
// file of that size can need.
type boundedReader struct {
	data     []byte
	pos      int64
	Problems []string
}

func (b *boundedReader) Read(p []byte) (int, error) {
	if len(p) > len(b.data)+64 {
		b.Problems = append(b.Problems, fmt.Sprintf("Read with a %d-byte buffer on a %d-byte file", len(p), len(b.data)))
	}
	if b.pos > int64(len(b.data)) {
		b.Problems = append(b.Problems, fmt.Sprintf("Read at offset %d of a %d-byte file", b.pos, len(b.data)))
	}
	if b.pos >= int64(len(b.data)) {
		return 0, io.EOF
	}
	n := copy(p, b.data[b.pos:])
	b.pos += int64(n)
	return n, nil
}

func (b *boundedReader) Seek(off int64, whence int) (int64, error) {
	var np int64
	switch whence {
	case io.SeekStart:
		np = off
	case io.SeekCurrent:
		np = b.pos + off
	case io.SeekEnd:
		np = int64(len(b.data)) + off
	}
	if np < 0 {
		return 0, fmt.Errorf("negative seek")
	}
	b.pos = np
	return np, nil
}

// mutateBytes applies one byte-level mutation drawn from the tape.
func mutateBytes(w *Tape, data []byte, other []byte, md *bs.FileMetadata) ([]byte, string, string) {
	n := len(data)
	out := append([]byte(nil), data...)
	region := md.BlockFilterRegionOffset
	regionEnd := md.BlockFilterRegionOffset + md.BlockFilterRegionSize
	// Interesting positions: inside row data, the region, the file filter section, JSON, tail.
	pick := func() int {
		switch w.Draw(6) {
		case 0:
			if region > 0 {
				return w.Draw(region)
			}
		case 1:
			if regionEnd > region {
				return region + w.Draw(regionEnd-region)
			}
		case 2:
			if n-20 > regionEnd {
				return regionEnd + w.Draw(n-20-regionEnd)
			}
		case 3:
			return n - 1 - w.Draw(min(20, n))
		}
		return w.Draw(n)
	}
	switch w.Draw(8) {
	case 0:
		p := pick()
		out[p] ^= 1 << uint(w.Draw(8))
		return out, "bit-flip", fmt.Sprintf("at %d", p)
	case 1:
		k := 1 + w.Draw(4)
		s := ""
		for i := 0; i < k; i++ {
			p := pick()
			out[p] ^= 1 << uint(w.Draw(8))
			s += fmt.Sprint(p, " ")
		}
		return out, "multi-bit-flip", "at " + s
	case 2:
		p := pick()
		l := 1 + w.Draw(32)
		for i := p; i < p+l && i < n; i++ {
			out[i] = byte(w.Draw(256))
		}
		return out, "burst", fmt.Sprintf("%d bytes at %d", l, p)
	case 3:
		p := pick()
		return out[:p], "truncate", fmt.Sprintf("to %d of %d bytes", p, n)
	case 4:
		l := 1 + w.Draw(64)
		ext := make([]byte, l)
		for i := range ext {
			ext[i] = byte(w.Draw(256))
		}
		return append(out, ext...), "extend", fmt.Sprintf("by %d bytes", l)
	case 5:
		if len(other) > 0 {
			p := pick()
			l := 1 + w.Draw(min(200, len(other)))
			o := w.Draw(len(other) - l + 1)
			for i := 0; i < l && p+i < n; i++ {
				out[p+i] = other[o+i]
			}
			return out, "splice", fmt.Sprintf("%d bytes of another file at %d", l, p)
		}
		fallthrough
	case 6:
		p := pick()
		l := 1 + w.Draw(16)
		for i := p; i < p+l && i < n; i++ {
			out[i] = 0
		}
		return out, "zero-run", fmt.Sprintf("%d bytes at %d", l, p)
	default:
		// Keep the length, replace the tail.
		if len(other) >= 20 {
			copy(out[n-20:], other[len(other)-20:])
			return out, "foreign-tail", "last 20 bytes from another file"
		}
		p := pick()
		out[p] = ^out[p]
		return out, "byte-invert", fmt.Sprintf("at %d", p)
	}
}

var framingValues = []int64{0, 1, -1, 2, 19, 20, 21, 1 << 20, 1 << 31, 1<<31 - 1, -(1 << 31), 1 << 40, 1 << 62, math.MaxInt64, math.MaxInt64 - 1, math.MinInt64, math.MinInt64 + 1}

// reframe rewrites metadata framing fields of a valid file and re-computes the footer CRC.
func reframe(w *Tape, data []byte) ([]byte, string, bool) {
	n := len(data)
	if n < 20 {
		return nil, "", false
	}
	tail := data[n-20:]
	mlen := int(binary.LittleEndian.Uint32(tail[4:8]))
	moff := n - 20 - mlen
	if moff < 0 {
		return nil, "", false
	}
	var m map[string]any
	dec := json.NewDecoder(bytes.NewReader(data[moff : moff+mlen]))
	dec.UseNumber()
	if err := dec.Decode(&m); err != nil {
		return nil, "", false
	}
	num0 := func(v any) int64 {
		if jn, ok := v.(json.Number); ok {
			i, _ := jn.Int64()
			return i
		}
		return 0
	}
	regOff, regSize := num0(m["BlockFilterRegionOffset"]), num0(m["BlockFilterRegionSize"])
	val := func(base int64) json.Number {
		switch w.Draw(6) {
		case 4:
			// In bounds but arbitrary: somewhere inside the block filter region (sections out of
			// order, overlapping, or misaligned pass the framing validation).
			if regSize > 0 {
				return json.Number(fmt.Sprint(regOff + int64(w.Draw(int(regSize)+1))))
			}
		case 5:
			// In bounds: somewhere inside the row data area.
			if regOff > 0 {
				return json.Number(fmt.Sprint(int64(w.Draw(int(regOff) + 1))))
			}
		}
		switch w.Draw(4) {
		case 0:
			return json.Number(fmt.Sprint(framingValues[w.Draw(len(framingValues))]))
		case 1:
			return json.Number(fmt.Sprint(base + int64(w.Draw(5)) - 2))
		case 2:
			return json.Number(fmt.Sprint(int64(n) + int64(w.Draw(41)) - 20))
		}
		return json.Number(fmt.Sprint(base + int64(n)))
	}
	num := func(v any) int64 {
		if jn, ok := v.(json.Number); ok {
			i, _ := jn.Int64()
			return i
		}
		return 0
	}
	desc := ""
	k := 1 + w.Draw(3)
	for i := 0; i < k; i++ {
		switch w.Draw(9) {
		case 7:
			// Swap two blocks' filter sections: in bounds, each section still passes its CRC,
			// but the sections are no longer in block order.
			blocks, _ := m["DataBlocks"].([]any)
			if len(blocks) >= 2 {
				a, b := w.Draw(len(blocks)), w.Draw(len(blocks))
				ba, _ := blocks[a].(map[string]any)
				bb, _ := blocks[b].(map[string]any)
				if ba != nil && bb != nil && a != b {
					ba["BloomFilterOffset"], bb["BloomFilterOffset"] = bb["BloomFilterOffset"], ba["BloomFilterOffset"]
					ba["BloomFilterSize"], bb["BloomFilterSize"] = bb["BloomFilterSize"], ba["BloomFilterSize"]
					desc += fmt.Sprintf("swap-filter-sections[%d,%d] ", a, b)
				}
			}
		case 8:
			// Move one block's section to the end of the region (overlapping the last one).
			blocks, _ := m["DataBlocks"].([]any)
			if len(blocks) >= 1 && regSize > 0 {
				a := w.Draw(len(blocks))
				if ba, _ := blocks[a].(map[string]any); ba != nil {
					sz := num0(ba["BloomFilterSize"])
					ba["BloomFilterOffset"] = json.Number(fmt.Sprint(regOff + regSize - sz - int64(w.Draw(3))))
					desc += fmt.Sprintf("block[%d].BloomFilterOffset=%v(end of region) ", a, ba["BloomFilterOffset"])
				}
			}
		case 0:
			m["BlockFilterRegionOffset"] = val(num(m["BlockFilterRegionOffset"]))
			desc += fmt.Sprintf("BlockFilterRegionOffset=%v ", m["BlockFilterRegionOffset"])
		case 1:
			m["BlockFilterRegionSize"] = val(num(m["BlockFilterRegionSize"]))
			desc += fmt.Sprintf("BlockFilterRegionSize=%v ", m["BlockFilterRegionSize"])
		case 2:
			m["FileFilterSectionSize"] = val(num(m["FileFilterSectionSize"]))
			desc += fmt.Sprintf("FileFilterSectionSize=%v ", m["FileFilterSectionSize"])
		default:
			blocks, _ := m["DataBlocks"].([]any)
			if len(blocks) == 0 {
				continue
			}
			bi := w.Draw(len(blocks))
			b, _ := blocks[bi].(map[string]any)
			if b == nil {
				continue
			}
			f := []string{"RowDataOffset", "RowDataSize", "BloomFilterOffset", "BloomFilterSize", "UncompressedSize", "Rows"}[w.Draw(6)]
			b[f] = val(num(b[f]))
			desc += fmt.Sprintf("block[%d].%s=%v ", bi, f, b[f])
		}
	}
	nj, err := json.Marshal(m)
	if err != nil {
		return nil, "", false
	}
	// [everything before the JSON][new JSON][crc][len][version][magic]
	out := append([]byte(nil), data[:moff]...)
	out = append(out, nj...)
	var u [4]byte
	binary.LittleEndian.PutUint32(u[:], crc32.Checksum(nj, crcTable))
	out = append(out, u[:]...)
	binary.LittleEndian.PutUint32(u[:], uint32(len(nj)))
	out = append(out, u[:]...)
	out = append(out, tail[8:]...)
	return out, desc, true
}

type corruptState struct {
	r     *Run
	rows  map[string][]byte // _id -> marshaled row as ingested
	specs map[string]*SpecRow
}

// checkRows verifies that returned/decoded rows are rows that were written.
func (st *corruptState) checkRow(what string, row map[string]any) {
	id := idOfRow(row)
	raw, ok := st.rows[id]
	if !ok {
		st.r.Violate("C19", "row-never-written", "%s yields a row with _id %q that was never written: %v", what, id, row)
		return
	}
	var want map[string]any
	json.Unmarshal(raw, &want)
	if !reflect.DeepEqual(want, row) {
		st.r.Violate("C19", "row-content-wrong", "%s yields row %q as %v, written as %v", what, id, row, want)
	}
}

// helpers runs the public read helpers over a (possibly corrupt) file image.
func (st *corruptState) helpers(data []byte, what string) (md *bs.FileMetadata) {
	r := st.r
	br := &boundedReader{data: data}
	defer func() {
		if p := recover(); p != nil {
			r.Violate("C19", "helper-panic", "%s: a read helper panicked: %v", what, p)
		}
		for _, pr := range br.Problems {
			r.Violate("C19", "out-of-bounds-read", "%s: %s", what, pr)
		}
	}()
	md, size, err := bs.ReadFileMetadata(br)
	if err != nil {
		r.Probe("corrupt.metadata-rejected")
		return nil
	}
	if size != int64(len(data)) {
		r.Violate("C19", "wrong-file-size", "%s: ReadFileMetadata reports size %d for a %d-byte file", what, size, len(data))
	}
	r.Probe("corrupt.metadata-accepted")
	for i := range md.DataBlocks {
		b := md.DataBlocks[i]
		rowData, err := bs.ReadDataBlockRowData(br, &b)
		if err == nil {
			sc := bs.NewBlockRowScanner(rowData)
			for {
				row, ok, err := sc.Next()
				if err != nil || !ok {
					break
				}
				var m map[string]any
				if json.Unmarshal(row, &m) != nil {
					if b.HasRowDataHash {
						r.Violate("C19", "garbage-row-decoded", "%s: block %d passed its CRC but yields a row that is not JSON: %q", what, i, trunc(row))
					}
					continue
				}
				if b.HasRowDataHash {
					st.checkRow(what+" ReadDataBlockRowData", m)
				}
			}
		}
		if f, err := bs.ReadDataBlockBloomFilters(br, b); err == nil && f == nil {
			r.Violate("C19", "nil-filters-without-error", "%s: ReadDataBlockBloomFilters returned nil, nil", what)
		}
	}
	return md
}

func runCorrupt(r *Run, variant string) {
	w := r.W
	wl := &corruptWorkload{Compress: []string{"none", "snappy", "zstd"}[w.Draw(3)], Mode: w.Draw(2), When: w.Draw(3), QueryKind: w.Draw(4)}
	nb := w.Range(1, 4)
	for i := 0; i < nb; i++ {
		wl.Blocks = append(wl.Blocks, []int{1, 2, 5, 20, 80}[w.Draw(5)])
	}
	st := &corruptState{r: r, rows: map[string][]byte{}, specs: map[string]*SpecRow{}}
	simrt.SetMode(simrt.ModeOff)
	disk := NewSimDisk(r)
	meta := NewSimMeta(r)
	cfg := bs.DefaultBloomSearchEngineConfig()
	cfg.RowDataCompression = compressionOf(wl.Compress)
	cfg.PartitionFunc = partitionByP
	cfg.MinMaxIndexes = []string{"n"}
	cfg.MaxBufferedRows = 1 << 20
	cfg.MaxRowGroupRows = 1 << 20
	cfg.MaxBufferedTime = time.Hour
	cfg.BloomFalsePositiveRate = 0.01
	cfg.MaxQueryConcurrency = 1 + w.Draw(3)
	eng, err := bs.NewBloomSearchEngine(cfg, meta, disk)
	if err != nil {
		panic(err)
	}
	eng.Start()
	words := []string{"error", "info", "timeout reached", "payment processed"}
	id := 0
	for f := 0; f < 2; f++ { // two files: the second is the splice donor and the merge partner
		var rows []map[string]any
		for bi, n := range wl.Blocks {
			for i := 0; i < n; i++ {
				row := map[string]any{"_id": fmt.Sprintf("r%04d", id), "p": fmt.Sprintf("p%d", bi), "n": id % 50, "msg": words[id%len(words)]}
				raw, _ := json.Marshal(row)
				st.rows[row["_id"].(string)] = raw
				st.specs[row["_id"].(string)] = BuildSpecRow(raw, SpecDefaultTokenizer)
				rows = append(rows, row)
				id++
			}
		}
		ch := make(chan error, 1)
		eng.IngestRows(context.Background(), rows, ch)
		eng.Flush(context.Background())
		<-ch
	}
	eng.Stop(context.Background())
	ptrs := disk.Published()
	if len(ptrs) < 2 {
		r.Budget = true
		return
	}
	victim, donor := ptrs[0], ptrs[1]
	orig, _ := disk.FileBytes(victim)
	other, _ := disk.FileBytes(donor)
	md0, _ := meta.Get(victim)

	var corrupted []byte
	if wl.Mode == 0 {
		corrupted, wl.Mutation, wl.Detail = mutateBytes(w, orig, other, &md0)
	} else {
		c, d, ok := reframe(w, orig)
		if !ok {
			r.Budget = true
			return
		}
		corrupted, wl.Mutation, wl.Detail = c, "reframe", d
	}
	r.Samples = append(r.Samples, wl)
	what := fmt.Sprintf("%s %s", wl.Mutation, wl.Detail)
	r.NonTriv["C19"] = !bytes.Equal(corrupted, orig)

	// ---- read helpers on the corrupted image ----
	newMD := st.helpers(corrupted, what)

	queries := []*bs.Query{nil, bs.NewQuery().Token("error").Build(), bs.NewQuery().Field("msg").FieldRegex("msg", "time").Build(),
		bs.NewQuery().MatchPrefilter(bs.MinMax("n", bs.NumericLessThan(25))).Token("info").Build()}
	q := queries[wl.QueryKind]
	cache := map[string]*regexp.Regexp{}
	// The exact uncorrupted answer: what the same query returns on the intact store (for a
	// prefilter query that is block-granular, so the Spec alone does not determine it); it must
	// agree with the Spec on every row it returns.
	expect := map[string]bool{}
	{
		beng, err := bs.NewBloomSearchEngine(cfg, meta, disk)
		if err != nil {
			panic(err)
		}
		rows, berr, _ := QueryAll(beng, context.Background(), q)
		if berr != nil {
			r.Violate("C20", "fault-free-query-error", "query on the intact store failed: %v", berr)
		}
		for _, row := range rows {
			rid := idOfRow(row)
			expect[rid] = true
			if sr := st.specs[rid]; sr == nil || !sr.MatchQuery(q, cache) {
				r.Violate("C02", "non-matching-row-returned", "query %s on the intact store returned row %s which does not match it", describeQuery(q), rid)
			}
		}
	}
	disk.OOBLimit = max(len(orig), len(other), len(corrupted))

	if wl.Mode == 1 {
		// Metadata comes from the file itself: the real FileSystemDataStore (both roles) over a
		// directory holding the re-framed file and the intact donor.
		fs := simos.NewFS()
		simos.Current = fs
		store := bs.NewFileSystemDataStore(fsRoot)
		for name, content := range map[string][]byte{"bloom-victim.dat": corrupted, "bloom-donor.dat": other} {
			h, err := simos.OpenFile(fsRoot+"/"+name, simos.O_WRONLY|simos.O_CREATE, 0o600)
			if err != nil {
				panic(err)
			}
			h.Write(content)
			h.Close()
		}
		feng, err := bs.NewBloomSearchEngine(cfg, store, store)
		if err != nil {
			panic(err)
		}
		rows, qerr, _ := QueryAll(feng, context.Background(), q)
		for _, row := range rows {
			st.checkRow(what+" query (metadata from the file)", row)
		}
		_ = qerr
		if newMD != nil {
			r.Probe("corrupt.reframed-file-listed")
		}
		if _, merr := feng.Merge(context.Background()); merr == nil {
			rows, _, _ := QueryAll(feng, context.Background(), nil)
			for _, row := range rows {
				st.checkRow(what+" query after merge (metadata from the file)", row)
			}
		}
		if !r.Teardown(nil) {
			r.Dirty = true
		}
		return
	}

	// ---- metadata held by the MetaStore ----
	qeng, err := bs.NewBloomSearchEngine(cfg, meta, disk)
	if err != nil {
		panic(err)
	}
	switch wl.When {
	case 0, 1:
		if wl.When == 0 {
			disk.SetFileBytes(victim, corrupted)
		}
		r.SetupPolicy(false, 200)
		r.Faults.Off = true
		simrt.SetMode(simrt.ModeCoarse)
		var rows []map[string]any
		var qerr error
		done := false
		applied := wl.When == 0
		simrt.GoNamed("reader", func() {
			simrt.Gate("op", "query", nil)
			rows, qerr, _ = QueryAll(qeng, WithTag(context.Background(), "q-corrupt"), q)
			done = true
		})
		// Further readers of the same (corrupted) store, slow consumers: what a failed block left
		// behind in shared state (pooled buffers, handles) must not leak into their answers.
		type extraRes struct {
			rows []map[string]any
			err  error
			done bool
		}
		extras := make([]*extraRes, r.S.Draw(3))
		for i := range extras {
			x := &extraRes{}
			extras[i] = x
			name := fmt.Sprintf("reader%d", i+2)
			simrt.GoNamed(name, func() {
				simrt.Gate("op", "query "+name, nil)
				res, err := qeng.Query(WithTag(context.Background(), "q-"+name), q)
				if err != nil {
					x.err, x.done = err, true
					return
				}
				n := 0
				for res.Next() {
					x.rows = append(x.rows, res.Row())
					if n++; n%8 == 0 {
						simrt.Gate("op", "next "+name, nil)
					}
				}
				x.err = res.Err()
				res.Close()
				x.done = true
			})
		}
		allDone := func() bool {
			for _, x := range extras {
				if !x.done {
					return false
				}
			}
			return done
		}
		r.OnPick = func() {
			if !applied && r.S.Chance(150) {
				disk.SetFileBytes(victim, corrupted)
				applied = true
				r.Logf("file %s corrupted while the query runs (%s)", victim, what)
				r.Probe("corrupt.mid-query")
			}
		}
		r.Loop(allDone, 10*time.Second)
		r.OnPick = nil
		if !allDone() {
			r.Budget = true
			break
		}
		simrt.SetMode(simrt.ModeOff)
		if len(extras) > 0 {
			r.Probe("corrupt.concurrent-readers")
		}
		for i, x := range extras {
			label := fmt.Sprintf("%s (concurrent reader %d)", what, i+2)
			xgot := map[string]int{}
			for _, row := range x.rows {
				st.checkRow(label+" query (metadata held by the MetaStore)", row)
				xgot[idOfRow(row)]++
			}
			if x.err != nil {
				continue
			}
			for rid := range expect {
				if xgot[rid] != 1 {
					r.Violate("C19", "wrong-answer-without-error", "%s: query %s finished with nil error but returned row %s %d times (exact answer has %d rows, returned %d)", label, describeQuery(q), rid, xgot[rid], len(expect), len(x.rows))
					break
				}
			}
			for rid := range xgot {
				if !expect[rid] {
					r.Violate("C19", "wrong-answer-without-error", "%s: query %s finished with nil error but returned non-matching row %s", label, describeQuery(q), rid)
					break
				}
			}
		}
		got := map[string]int{}
		for _, row := range rows {
			st.checkRow(what+" query (metadata held by the MetaStore)", row)
			got[idOfRow(row)]++
		}
		if qerr == nil {
			for rid := range expect {
				if got[rid] != 1 {
					r.Violate("C19", "wrong-answer-without-error", "%s: query %s finished with nil error but returned row %s %d times (exact answer has %d rows, returned %d)", what, describeQuery(q), rid, got[rid], len(expect), len(rows))
					break
				}
			}
			for rid := range got {
				if !expect[rid] {
					r.Violate("C19", "wrong-answer-without-error", "%s: query %s finished with nil error but returned non-matching row %s", what, describeQuery(q), rid)
				}
			}
			r.Probe("corrupt.query-nil-error")
		} else {
			r.Probe("corrupt.query-error")
		}
	case 2:
		disk.SetFileBytes(victim, corrupted)
		before := TakeCensus(meta, disk, false)
		_, merr := qeng.Merge(context.Background())
		after := TakeCensus(meta, disk, false)
		if merr != nil {
			r.Probe("corrupt.merge-failed")
			if !samePointers(pointersOf(before), pointersOf(after)) {
				r.Violate("C19", "failed-merge-changed-references", "%s: Merge failed with %v but the referenced files changed", what, merr)
			}
		} else {
			r.Probe("corrupt.merge-ok")
			for rid, n := range after.IDs {
				if _, ok := st.rows[rid]; !ok {
					r.Violate("C19", "row-never-written", "%s: after a merge over the corrupted file the store holds row %q, which was never written", what, rid)
				}
				if n > 1 {
					r.Violate("C19", "merge-duplicated-row", "%s: after a merge over the corrupted file row %q is stored %d times", what, rid, n)
				}
			}
			// A merge that succeeded must not have lost rows that were readable before it.
			for rid, n := range before.IDs {
				if after.IDs[rid] < n {
					r.Violate("C19", "merge-lost-readable-row", "%s: row %q was readable before the merge over the corrupted file and is gone after it succeeded", what, rid)
				}
			}
		}
	}
	for _, o := range disk.OOB {
		r.Violate("C19", "out-of-bounds-read", "%s: %s", what, o)
	}
	if !r.Teardown(nil) {
		r.Dirty = true
	}
}

func pointersOf(c *Census) []string {
	var out []string
	for _, f := range c.Files {
		out = append(out, f.Ptr)
	}
	return out
}

func init() { otherScenarios["corrupt"] = runCorrupt }
