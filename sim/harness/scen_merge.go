package harness

import (
	"context"
	"encoding/json"
	"errors"
	"fmt"
	"regexp"
	"sort"
	"strings"
	"time"

	bs "github.com/danthegoodman1/bloomsearch"
	"verifsim/simrt"
)

// S-merge (DESIGN.md §5). Variants:
//   content    — C11 / C12 (and C17 / C18 on every merge output): fault-free merges over diverse populations
//   faults     — C13: fault enumeration over every store call of a merge, plus a concurrent Merge
//   concurrent — C14: queries racing flushes and merges

type mergeCfg struct {
	Compression string  `json:"compression"`
	ZstdLevel   int     `json:"zstd_level"`
	FPRate      float64 `json:"fp_rate"`
	RGRows      int     `json:"rg_rows"`
	RGBytes     int     `json:"rg_bytes"`
	MergeFiles  int     `json:"merge_files"`
	MaxFileSize int     `json:"max_file_size"`
	Rounds      int     `json:"rounds"`
}

type mergeWorkload struct {
	Content *contentWorkload `json:"content"`
	Merge   mergeCfg         `json:"merge"`
	NPanel  int              `json:"n_panel"`
	Lazy    bool             `json:"lazy_tombstone"`
}

func genMergeWorkload(w *Tape) *mergeWorkload {
	cw := genContentWorkload(w)
	cw.External = nil
	for i := range cw.Phases {
		cw.Phases[i].Merges = 0
		// Many small files: flush after most batches.
		for j := range cw.Phases[i].FlushAfter {
			cw.Phases[i].FlushAfter[j] = w.Draw(4) != 0
		}
	}
	mw := &mergeWorkload{Content: cw}
	mw.Merge = mergeCfg{
		Compression: []string{"none", "snappy", "zstd"}[w.Draw(3)],
		ZstdLevel:   1 + w.Draw(4),
		FPRate:      []float64{0.4, 0.05, 0.001}[w.Draw(3)],
		RGRows:      []int{1, 2, 3, 4, 5, 6, 8, 20, 100}[w.Draw(9)], // small limits near the source block sizes: groups fill up mid-way
		RGBytes:     []int{100, 400, 2000, 1 << 20}[w.Draw(4)],
		MergeFiles:  w.Range(2, 8),
		MaxFileSize: []int{600, 3000, 20000, 1 << 30}[w.Draw(4)],
		Rounds:      w.Range(1, 3),
	}
	mw.NPanel = w.Range(10, 30)
	mw.Lazy = w.Bool()
	return mw
}

type mergeSnapshot struct {
	census  *Census
	blocks  map[blockKey]*BlockView
	idBlock map[string]blockKey
	files   map[string]*FileView
	panel   []map[string]int // per panel query: id -> count
	perr    []error
}

type mergeState struct {
	cs     *contentState
	r      *Run
	mw     *mergeWorkload
	panel  []*bs.Query
	mcfg   bs.BloomSearchEngineConfig
	meng   *bs.BloomSearchEngine
	qeng   *bs.BloomSearchEngine
	reCach map[string]*regexp.Regexp
}

func (ms *mergeState) snapshot() *mergeSnapshot {
	cs := ms.cs
	s := &mergeSnapshot{blocks: map[blockKey]*BlockView{}, idBlock: map[string]blockKey{}, files: map[string]*FileView{}}
	s.census = TakeCensus(cs.meta, cs.disk, false)
	for fi := range s.census.Files {
		fv := &s.census.Files[fi]
		s.files[fv.Ptr] = fv
		for bi := range fv.Blocks {
			bv := &fv.Blocks[bi]
			k := blockKey{fv.Ptr, bv.Meta.RowDataOffset}
			s.blocks[k] = bv
			for _, id := range bv.IDs {
				s.idBlock[id] = k
			}
		}
	}
	for _, q := range ms.panel {
		rows, err, _ := QueryAll(ms.qeng, context.Background(), q)
		got := map[string]int{}
		for _, row := range rows {
			got[idOfRow(row)]++
		}
		s.panel = append(s.panel, got)
		s.perr = append(s.perr, err)
	}
	return s
}

func (ms *mergeState) mergeEngineConfig() bs.BloomSearchEngineConfig {
	m := ms.mw.Merge
	last := ms.mw.Content.Phases[len(ms.mw.Content.Phases)-1]
	cfg := ms.cs.engineConfig(last)
	cfg.RowDataCompression = compressionOf(m.Compression)
	cfg.ZstdCompressionLevel = m.ZstdLevel
	cfg.BloomFalsePositiveRate = m.FPRate
	cfg.MaxRowGroupRows = m.RGRows
	cfg.MaxRowGroupBytes = m.RGBytes
	cfg.MaxFilesToMergePerOperation = m.MergeFiles
	cfg.MaxFileSize = m.MaxFileSize
	return cfg
}

func keySet(m map[string]bs.MinMaxIndex) string {
	return strings.Join(sortedKeys(m), ",")
}

// compare applies C11 and C12 to one committed merge: before/after snapshots plus the Update call.
func (ms *mergeState) compare(before, after *mergeSnapshot, upd *MetaCall, round int) {
	r := ms.r
	cs := ms.cs
	// ---- C11: content preserved ----
	for id, n := range before.census.IDs {
		if after.census.IDs[id] != n {
			r.Violate("C11", "row-multiset-changed", "merge round %d: row %s was stored %d times before and %d times after", round, id, n, after.census.IDs[id])
		}
	}
	for id, n := range after.census.IDs {
		if before.census.IDs[id] == 0 {
			r.Violate("C11", "row-appeared", "merge round %d: row %s is stored %d times after the merge but was not stored before", round, id, n)
		}
	}
	for id, k := range after.idBlock {
		ri := cs.byID[id]
		bv := after.blocks[k]
		if ri == nil || bv == nil {
			continue
		}
		if bv.Meta.PartitionID != ri.Pid {
			r.Violate("C11", "partition-changed", "merge round %d: row %s (partition %q) now sits in block %v with partition %q", round, id, ri.Pid, k, bv.Meta.PartitionID)
		}
		for key, v := range ri.Indexed {
			lo, hi, ok := expectedRange(v)
			if !ok {
				continue
			}
			mm, has := bv.Meta.MinMaxIndexes[key]
			if !has || mm.Min > lo || mm.Max < hi {
				r.Violate("C11", "minmax-no-longer-covers", "merge round %d: block %v range for %q (%v, present=%v) does not cover row %s's value %v (%T)", round, k, key, mm, has, id, v, v)
			}
		}
	}
	for qi, q := range ms.panel {
		b, a := before.panel[qi], after.panel[qi]
		if before.perr[qi] != nil || after.perr[qi] != nil {
			r.Violate("C11", "panel-query-error", "merge round %d: panel query %s failed (before: %v, after: %v) with no fault injected", round, describeQuery(q), before.perr[qi], after.perr[qi])
			continue
		}
		hasPF := q != nil && q.Prefilter != nil && q.Prefilter.Expression != nil
		for id, n := range b {
			if a[id] < n {
				r.Violate("C11", "answer-lost-row", "merge round %d: query %s returned row %s %d times before the merge and %d times after", round, describeQuery(q), id, n, a[id])
			}
		}
		for id, n := range a {
			if !hasPF && b[id] != n {
				r.Violate("C11", "answer-changed", "merge round %d: prefilter-free query %s returned row %s %d times before the merge and %d times after", round, describeQuery(q), id, b[id], n)
			}
			if ri := cs.byID[id]; ri != nil && !ri.Spec.MatchQuery(q, ms.reCach) {
				r.Violate("C11", "answer-has-non-matching-row", "merge round %d: query %s returns row %s after the merge, which does not match its bloom/regex expression", round, describeQuery(q), id)
			}
		}
	}
	if upd == nil {
		return
	}
	r.NonTriv["C11"], r.NonTriv["C12"] = true, true
	// ---- C12: layout limits ----
	cfg := ms.mcfg
	if len(upd.Deletes) > cfg.MaxFilesToMergePerOperation {
		r.Violate("C12", "too-many-files-merged", "merge round %d removed %d source files; MaxFilesToMergePerOperation=%d", round, len(upd.Deletes), cfg.MaxFilesToMergePerOperation)
	}
	for _, out := range upd.Writes {
		fv := after.files[out]
		if fv == nil {
			continue
		}
		srcFiles := map[string]bool{}
		for _, bv := range fv.Blocks {
			srcBlocks := map[blockKey]bool{}
			for _, id := range bv.IDs {
				if k, ok := before.idBlock[id]; ok {
					srcBlocks[k] = true
					srcFiles[k.ptr] = true
				}
			}
			if len(srcBlocks) >= 2 {
				r.Probe("merge.combined-blocks")
				if len(bv.Rows) > cfg.MaxRowGroupRows {
					r.Violate("C12", "combined-block-too-many-rows", "merge round %d: output block %s@%d combines %d source blocks into %d rows; MaxRowGroupRows=%d", round, out, bv.Meta.RowDataOffset, len(srcBlocks), len(bv.Rows), cfg.MaxRowGroupRows)
				}
				usz := 0
				for _, row := range bv.Rows {
					usz += 4 + len(row)
				}
				if usz > cfg.MaxRowGroupBytes {
					r.Violate("C12", "combined-block-too-many-bytes", "merge round %d: output block %s@%d combines %d source blocks into %d uncompressed bytes; MaxRowGroupBytes=%d", round, out, bv.Meta.RowDataOffset, len(srcBlocks), usz, cfg.MaxRowGroupBytes)
				}
				var pid, ks string
				first := true
				for k := range srcBlocks {
					sb := before.blocks[k]
					if first {
						pid, ks, first = sb.Meta.PartitionID, keySet(sb.Meta.MinMaxIndexes), false
						continue
					}
					if sb.Meta.PartitionID != pid {
						r.Violate("C12", "combined-different-partitions", "merge round %d: output block %s@%d combines source blocks of partitions %q and %q", round, out, bv.Meta.RowDataOffset, pid, sb.Meta.PartitionID)
					}
					if keySet(sb.Meta.MinMaxIndexes) != ks {
						r.Violate("C12", "combined-different-minmax-keysets", "merge round %d: output block %s@%d combines source blocks with minmax key sets {%s} and {%s}", round, out, bv.Meta.RowDataOffset, ks, keySet(sb.Meta.MinMaxIndexes))
					}
				}
			}
		}
		total := 0
		for p := range srcFiles {
			if sf := before.files[p]; sf != nil {
				for _, b := range sf.Blocks {
					total += b.Meta.RowDataSize + b.Meta.BloomFilterSize
				}
			}
		}
		if total > cfg.MaxFileSize {
			r.Violate("C12", "merged-files-exceed-max-file-size", "merge round %d: the %d source files merged into %s total %d bytes; MaxFileSize=%d", round, len(srcFiles), out, total, cfg.MaxFileSize)
		}
	}
}

func (ms *mergeState) metaCalls() []MetaCall {
	if ms.cs.simMeta != nil {
		return ms.cs.simMeta.CallsSnapshot()
	}
	return ms.cs.gmeta.CallsSnapshot()
}

func newMergeState(r *Run) (*mergeState, bool) {
	w := r.W
	mw := genMergeWorkload(w)
	wl := mw.Content
	cs := &contentState{r: r, wl: wl, byID: map[string]*RowInfo{}, fpRates: map[float64]bool{}, checked: map[string]bool{}, external: map[string]bool{},
		writerFP: map[string]float64{}, acks: map[string]error{}}
	cs.tok = tokenizerByIndex(wl.TokIdx)
	for i := 0; i < wl.NRows; i++ {
		id := fmt.Sprintf("r%03d", i)
		row := genRow(w, id)
		raw, err := json.Marshal(row)
		if err != nil {
			row = map[string]any{"_id": id, "msg": "fallback"}
			raw, _ = json.Marshal(row)
		}
		info := &RowInfo{ID: id, Row: row, Raw: raw, Spec: BuildSpecRow(raw, cs.tok.Spec)}
		cs.rows = append(cs.rows, info)
		cs.byID[id] = info
	}
	for _, ph := range wl.Phases {
		cs.fpRates[ph.FPRate] = true
	}
	cs.fpRates[mw.Merge.FPRate] = true
	cs.disk = NewSimDisk(r)
	cs.disk.LazyTombstone = mw.Lazy
	if wl.RealMeta {
		cs.gmeta = NewGatedMeta(r, bs.NewMemoryMetaStore())
		cs.meta = cs.gmeta
	} else {
		cs.simMeta = NewSimMeta(r)
		cs.meta = cs.simMeta
	}
	ms := &mergeState{cs: cs, r: r, mw: mw, reCach: map[string]*regexp.Regexp{}}
	r.Samples = append(r.Samples, mw)

	// Build the population from the controller with every gate open.
	simrt.SetMode(simrt.ModeOff)
	cs.writer()
	cs.checkNewFiles()
	if !cs.writerOK {
		return ms, false
	}
	for id, err := range cs.acks {
		if err != nil {
			r.Violate("C06", "fault-free-batch-failed", "row %s was answered %v although no fault was injected", id, err)
		}
	}
	ms.mcfg = ms.mergeEngineConfig()
	var err error
	if ms.meng, err = bs.NewBloomSearchEngine(ms.mcfg, cs.meta, cs.disk); err != nil {
		panic(err)
	}
	if ms.qeng, err = bs.NewBloomSearchEngine(ms.mcfg, cs.meta, cs.disk); err != nil {
		panic(err)
	}
	// Query panel.
	var specs []*SpecRow
	values := map[string][]int64{}
	for _, ri := range cs.rows {
		specs = append(specs, ri.Spec)
		for k, v := range ri.Indexed {
			if lo, _, ok := expectedRange(v); ok {
				values[k] = append(values[k], lo)
			}
		}
	}
	pool := buildEntryPool(specs, w, 40)
	ms.panel = append(ms.panel, nil)
	for i := 0; i < mw.NPanel; i++ {
		ms.panel = append(ms.panel, genQuery(w, pool, values))
	}
	return ms, true
}

// RunMerge dispatches the S-merge variants.
func RunMerge(r *Run, variant string) {
	switch variant {
	case "faults":
		runMergeFaults(r)
	case "concurrent":
		runMergeConcurrent(r)
	default:
		runMergeContent(r)
	}
}

func runMergeContent(r *Run) {
	ms, ok := newMergeState(r)
	if !ok {
		r.Budget = true
		r.Teardown(nil)
		return
	}
	cs := ms.cs
	cs.curFP = ms.mw.Merge.FPRate
	r.SetupPolicy(false, 400)
	r.Faults.Off = true
	r.MaxSteps = 100000
	r.OnStep = cs.checkNewFiles
	for round := 1; round <= ms.mw.Merge.Rounds; round++ {
		simrt.SetMode(simrt.ModeOff)
		before := ms.snapshot()
		nCalls := len(ms.metaCalls())
		simrt.SetMode(simrt.ModeCoarse)
		done := false
		var stats *bs.MergeStats
		var merr error
		simrt.GoNamed(fmt.Sprintf("merger%d", round), func() {
			simrt.Gate("op", "merge", nil)
			stats, merr = ms.meng.Merge(WithTag(context.Background(), fmt.Sprintf("merge-%d", round)))
			done = true
		})
		r.Loop(func() bool { return done }, 30*time.Second)
		if !done || r.Budget {
			r.Budget = true
			break
		}
		simrt.SetMode(simrt.ModeOff)
		cs.checkNewFiles()
		if merr != nil {
			r.Violate("C13", "fault-free-merge-failed", "Merge returned %v although no fault was injected", merr)
			break
		}
		after := ms.snapshot()
		var upd *MetaCall
		calls := ms.metaCalls()
		for i := nCalls; i < len(calls); i++ {
			if calls[i].Kind == "update" && calls[i].Applied && len(calls[i].Deletes) > 0 {
				c := calls[i]
				upd = &c
			}
		}
		if upd != nil {
			r.Probe("merge.committed")
			if stats != nil && int(stats.FilesProcessed) != len(upd.Deletes) {
				r.Probe("merge.stats-files-differ")
			}
		}
		ms.compare(before, after, upd, round)
		if upd == nil {
			break // nothing left to merge
		}
	}
	if !r.Teardown(nil) {
		r.Dirty = true
	}
}

// ---------------------------------------------------------------------------------------------
// C13: fault enumeration over a merge

func runMergeFaults(r *Run) {
	ms, ok := newMergeState(r)
	if !ok {
		r.Budget = true
		r.Teardown(nil)
		return
	}
	cs := ms.cs
	r.SetupPolicy(false, 400)
	r.MaxSteps = 100000
	if !r.EnumOn {
		// Exploration class: random faults (pairs, stalls) instead of one enumerated position.
		rate := []int{30, 80}[r.S.Draw(2)]
		r.Faults = FaultPolicy{ErrPermille: map[string]int{}, ShortPermille: rate / 2, LatePermille: rate / 2, MaxFaults: 1 + r.S.Draw(3), HonorCtx: r.S.Bool()}
		for _, k := range []string{"ds.create", "ds.write", "ds.wclose", "ds.abort", "ds.tomb", "ms.update", "ds.open", "ds.read", "ms.iter", "ms.yield"} {
			r.Faults.ErrPermille[k] = rate
		}
	}
	simrt.SetMode(simrt.ModeOff)
	before := ms.snapshot()
	beforePtrs := metaPointers(cs)
	beforeBytes := map[string][]byte{}
	for _, p := range beforePtrs {
		if b, ok := cs.disk.FileBytes(p); ok {
			beforeBytes[p] = b
		}
	}
	nMeta := len(ms.metaCalls())
	nDisk := len(cs.disk.CallsSnapshot())

	simrt.SetMode(simrt.ModeCoarse)
	r.EnumActive = true
	var stats1 *bs.MergeStats
	var err1, err2 error
	done1, done2, called2 := false, false, false
	inFlight := false
	simrt.GoNamed("mergerA", func() {
		simrt.Gate("op", "merge A", nil)
		inFlight = true
		stats1, err1 = ms.meng.Merge(WithTag(context.Background(), "merge-A"))
		inFlight = false
		done1 = true
	})
	simrt.GoNamed("mergerB", func() {
		simrt.Gate("op", "merge B", nil)
		if inFlight {
			called2 = true
			_, err2 = ms.meng.Merge(WithTag(context.Background(), "merge-B"))
		}
		done2 = true
	})
	// A third caller: a rejected Merge must not disturb the single-flight state of the one in
	// flight, so a further call while A is still running is rejected as well.
	var err3 error
	done3, called3 := false, false
	simrt.GoNamed("mergerC", func() {
		simrt.Gate("op", "merge C", nil)
		if inFlight && called2 {
			called3 = true
			_, err3 = ms.meng.Merge(WithTag(context.Background(), "merge-C"))
		}
		done3 = true
	})
	allDone := func() bool { return done1 && done2 && done3 }
	r.Loop(allDone, 30*time.Second)
	r.EnumActive = false
	if !allDone() && !r.Budget {
		r.FairDrain(allDone, 5000, 20*time.Second)
	}
	if called3 {
		r.Probe("merge.third-concurrent-call")
		if !errors.Is(err3, bs.ErrMergeInProgress) {
			r.Violate("C13", "concurrent-merge-not-rejected", "a third Merge, invoked after a second one had been rejected and while the first was still in progress, returned %v instead of ErrMergeInProgress", err3)
		}
	}
	if !allDone() || r.Budget {
		r.Budget = true
		if !r.Teardown(nil) {
			r.Dirty = true
		}
		return
	}
	simrt.SetMode(simrt.ModeOff)
	r.NonTriv["C13"] = len(r.FaultCt) > 0

	// Concurrent Merge.
	if called2 {
		r.Probe("merge.concurrent-call")
		if !errors.Is(err2, bs.ErrMergeInProgress) {
			r.Violate("C13", "concurrent-merge-not-rejected", "a second Merge invoked while the first was in progress returned %v instead of ErrMergeInProgress", err2)
		}
		for _, c := range cs.disk.CallsSnapshot()[nDisk:] {
			if c.Tag == "merge-B" {
				r.Violate("C13", "concurrent-merge-did-store-work", "the rejected concurrent Merge made a %s call on %s", c.Kind, c.Ptr)
				break
			}
		}
	}

	// Classify the outcome of merge A.
	var upd *MetaCall
	updates := 0
	for _, c := range ms.metaCalls()[nMeta:] {
		if c.Kind == "update" && c.Tag == "merge-A" {
			if c.Applied {
				updates++
				cc := c
				upd = &cc
			}
		}
	}
	after := ms.snapshot()
	calls := cs.disk.CallsSnapshot()[nDisk:]
	created := map[string]bool{}
	for _, c := range calls {
		if c.Kind == "create" && c.Tag == "merge-A" && c.Err == nil {
			created[c.Ptr] = true
		}
	}
	committed := err1 == nil || errors.Is(err1, bs.ErrPostCommitCleanup)
	switch {
	case committed:
		if stats1 == nil {
			r.Violate("C13", "committed-without-stats", "Merge returned error %v (commit) but nil stats", err1)
		}
		if updates > 1 {
			r.Violate("C13", "update-applied-twice", "one Merge applied MetaStore.Update %d times", updates)
		}
		if upd == nil {
			// Nothing to merge is a legitimate nil outcome: then nothing may have changed.
			if !samePointers(beforePtrs, metaPointers(cs)) {
				r.Violate("C13", "nil-without-commit", "Merge returned %v without a MetaStore commit, yet the referenced files changed", err1)
			}
			if len(created) > 0 {
				r.Violate("C13", "output-without-commit", "Merge returned %v, created %v, but never committed", err1, sortedBoolKeys(created))
			}
			break
		}
		r.Probe("merge.committed")
		// all outputs referenced, all sources unreferenced
		now := map[string]bool{}
		for _, p := range metaPointers(cs) {
			now[p] = true
		}
		for _, w := range upd.Writes {
			if !now[w] {
				r.Violate("C13", "output-not-referenced", "Merge committed but its output %s is not referenced by the MetaStore", w)
			}
			if _, ok := cs.disk.FileBytes(w); !ok || cs.disk.IsTombstoned(w) {
				r.Violate("C13", "committed-output-not-durable", "Merge committed output %s, which the DataStore does not hold as a published, live file", w)
			}
		}
		for _, d := range upd.Deletes {
			if now[d] {
				r.Violate("C13", "source-still-referenced", "Merge committed but its source %s is still referenced", d)
			}
		}
		// every source tombstone came after the commit
		failedTomb := 0
		srcSet := map[string]bool{}
		for _, d := range upd.Deletes {
			srcSet[d] = true
		}
		for _, c := range calls {
			if c.Kind == "tomb" && c.Tag == "merge-A" && srcSet[c.Ptr] {
				if c.Step < upd.End {
					r.Violate("C13", "source-tombstoned-before-commit", "source %s was tombstoned at step %d, before the MetaStore commit returned at step %d", c.Ptr, c.Step, upd.End)
				}
				if c.Err != nil {
					failedTomb++
				}
			}
		}
		if errors.Is(err1, bs.ErrPostCommitCleanup) && failedTomb == 0 {
			r.Violate("C13", "cleanup-error-without-failure", "Merge returned %v but no source tombstone failed", err1)
		}
		if err1 == nil && failedTomb > 0 {
			r.Violate("C13", "cleanup-failure-not-reported", "%d source tombstones failed but Merge returned nil", failedTomb)
		}
		for id, n := range before.census.IDs {
			if after.census.IDs[id] != n {
				r.Violate("C13", "commit-changed-content", "row %s stored %d times before the committed merge, %d after", id, n, after.census.IDs[id])
			}
		}
		for fi := range after.census.Files {
			if after.census.Files[fi].Err != nil {
				r.Violate("C13", "committed-file-unreadable", "after the committed merge, referenced file %s cannot be read: %v", after.census.Files[fi].Ptr, after.census.Files[fi].Err)
			}
			for _, bv := range after.census.Files[fi].Blocks {
				if bv.Err != nil {
					r.Violate("C13", "committed-block-unreadable", "after the committed merge, block %s@%d cannot be read: %v", bv.Ptr, bv.Meta.RowDataOffset, bv.Err)
				}
			}
		}
	default:
		// (nil, err): nothing changed.
		if stats1 != nil {
			r.Violate("C13", "stats-with-failure", "Merge returned stats together with the non-cleanup error %v", err1)
		}
		if updates > 0 {
			r.Violate("C13", "failed-merge-committed", "Merge returned %v but MetaStore.Update was applied", err1)
		}
		nowPtrs := metaPointers(cs)
		if !samePointers(beforePtrs, nowPtrs) {
			r.Violate("C13", "failed-merge-changed-references", "Merge returned %v; referenced files were %v, now %v", err1, beforePtrs, nowPtrs)
		}
		for _, p := range nowPtrs {
			if created[p] {
				r.Violate("C13", "partial-output-referenced", "Merge returned %v but its output %s is referenced", err1, p)
			}
			nb, ok := cs.disk.FileBytes(p)
			if !ok || cs.disk.IsTombstoned(p) || string(nb) != string(beforeBytes[p]) {
				r.Violate("C13", "failed-merge-damaged-source", "Merge returned %v; referenced file %s is no longer what it was (present=%v tombstoned=%v)", err1, p, ok, cs.disk.IsTombstoned(p))
			}
		}
		for qi := range ms.panel {
			if before.perr[qi] == nil && after.perr[qi] == nil && !sameCounts(before.panel[qi], after.panel[qi]) {
				r.Violate("C13", "failed-merge-changed-answers", "Merge returned %v; panel query %s answers differently afterwards", err1, describeQuery(ms.panel[qi]))
			}
		}
	}
	if !r.Teardown(nil) {
		r.Dirty = true
	}
}

func metaPointers(cs *contentState) []string {
	metas, _ := ListMeta(cs.meta)
	out := make([]string, 0, len(metas))
	for _, m := range metas {
		out = append(out, m.Ptr)
	}
	sort.Strings(out)
	return out
}

func samePointers(a, b []string) bool {
	if len(a) != len(b) {
		return false
	}
	for i := range a {
		if a[i] != b[i] {
			return false
		}
	}
	return true
}

func sameCounts(a, b map[string]int) bool {
	if len(a) != len(b) {
		return false
	}
	for k, v := range a {
		if b[k] != v {
			return false
		}
	}
	return true
}

func sortedBoolKeys(m map[string]bool) []string {
	out := make([]string, 0, len(m))
	for k := range m {
		out = append(out, k)
	}
	sort.Strings(out)
	return out
}

// ---------------------------------------------------------------------------------------------
// C14: queries concurrent with flushes and merges

type concBatch struct {
	ids     []string
	ch      chan error
	ackStep int
	acked   bool
	err     error
	accStep int
}

type concQuery struct {
	tag    string
	invoke int
	ret    int
	ids    []string
	err    error
	done   bool
}

func runMergeConcurrent(r *Run) {
	w := r.W
	disk := NewSimDisk(r)
	disk.LazyTombstone = w.Bool()
	var meta bs.MetaStore
	var gm *GatedMeta
	var sm *SimMeta
	if w.Bool() {
		gm = NewGatedMeta(r, bs.NewMemoryMetaStore())
		meta = gm
	} else {
		sm = NewSimMeta(r)
		meta = sm
	}
	cfg := bs.DefaultBloomSearchEngineConfig()
	cfg.MaxBufferedRows = w.Range(1, 4)
	cfg.MaxRowGroupRows = w.Range(2, 10)
	cfg.MaxBufferedTime = 300 * time.Millisecond
	cfg.IngestBufferSize = 4
	cfg.MaxQueryConcurrency = w.Range(1, 4)
	cfg.MaxFilesToMergePerOperation = w.Range(2, 5)
	cfg.RowDataCompression = compressionOf([]string{"none", "snappy", "zstd"}[w.Draw(3)])
	cfg.BloomFalsePositiveRate = 0.05
	if w.Bool() {
		cfg.PartitionFunc = partitionByP
	}
	eng, err := bs.NewBloomSearchEngine(cfg, meta, disk)
	if err != nil {
		panic(err)
	}
	eng.Start()
	nWriters, nReaders := w.Range(1, 2), w.Range(1, 3)
	nBatches, nMerges, nQueries := w.Range(3, 8), w.Range(1, 4), w.Range(2, 5)
	r.Samples = append(r.Samples, map[string]any{"writers": nWriters, "readers": nReaders, "batches": nBatches, "merges": nMerges, "queries": nQueries,
		"lazy_tombstone": disk.LazyTombstone, "memory_metastore": gm != nil, "max_buffered_rows": cfg.MaxBufferedRows})
	fine := r.SetupPolicy(true, 1500)
	r.Faults.Off = true
	r.MaxSteps = 80000
	if fine {
		simrt.YieldEnabled = func(site string) bool {
			return strings.HasPrefix(site, "memory_meta") || strings.HasPrefix(site, "merge") || strings.HasPrefix(site, "query_exec") || strings.HasPrefix(site, "query_handles") || site == "start"
		}
		simrt.SetMode(simrt.ModeFine)
	} else {
		simrt.SetMode(simrt.ModeCoarse)
	}
	var batches []*concBatch
	var queries []*concQuery
	fin := 0
	total := nWriters + nReaders + 1
	for wi := 0; wi < nWriters; wi++ {
		wi := wi
		simrt.GoNamed(fmt.Sprintf("writer%d", wi), func() {
			for bi := 0; bi < nBatches; bi++ {
				simrt.Gate("op", fmt.Sprintf("w%d ingest %d", wi, bi), nil)
				b := &concBatch{ch: make(chan error, 2)}
				var rows []map[string]any
				for k := 0; k < 1+(bi+wi)%3; k++ {
					id := fmt.Sprintf("w%d-%d-%d", wi, bi, k)
					b.ids = append(b.ids, id)
					rows = append(rows, map[string]any{"_id": id, "p": fmt.Sprintf("p%d", (bi+k)%2), "msg": "hello world"})
				}
				r.mu.Lock()
				batches = append(batches, b)
				r.mu.Unlock()
				if err := eng.IngestRows(context.Background(), rows, b.ch); err == nil {
					b.accStep = r.Step
				}
				if bi%3 == 2 {
					eng.Flush(context.Background())
				}
			}
			r.mu.Lock()
			fin++
			r.mu.Unlock()
		})
	}
	simrt.GoNamed("merger", func() {
		for m := 0; m < nMerges; m++ {
			simrt.Gate("op", fmt.Sprintf("merge %d", m), nil)
			_, err := eng.Merge(WithTag(context.Background(), fmt.Sprintf("merge-%d", m)))
			r.Logf("Merge %d -> %v", m, err)
			if err == nil {
				r.Probe("conc.merge-ok")
			}
		}
		r.mu.Lock()
		fin++
		r.mu.Unlock()
	})
	for ri := 0; ri < nReaders; ri++ {
		ri := ri
		simrt.GoNamed(fmt.Sprintf("reader%d", ri), func() {
			for qi := 0; qi < nQueries; qi++ {
				simrt.Gate("op", fmt.Sprintf("r%d query %d", ri, qi), nil)
				cq := &concQuery{tag: fmt.Sprintf("q-r%d-%d", ri, qi)}
				r.mu.Lock()
				queries = append(queries, cq)
				cq.invoke = r.Step
				r.mu.Unlock()
				rows, qerr, _ := QueryAll(eng, WithTag(context.Background(), cq.tag), nil)
				r.mu.Lock()
				for _, row := range rows {
					cq.ids = append(cq.ids, idOfRow(row))
				}
				cq.err, cq.ret, cq.done = qerr, r.Step, true
				r.mu.Unlock()
				r.Logf("query %s -> %d rows err=%v", cq.tag, len(rows), qerr)
			}
			r.mu.Lock()
			fin++
			r.mu.Unlock()
		})
	}
	r.OnStep = func() {
		r.mu.Lock()
		bl := append([]*concBatch(nil), batches...)
		r.mu.Unlock()
		for _, b := range bl {
			if !b.acked && len(b.ch) > 0 {
				b.err = <-b.ch
				b.acked = true
				b.ackStep = r.Step
			}
		}
	}
	// Bias: right after a MetaStore.Update has been applied (a flush or merge commit, or one half
	// of one), let a query take its MetaStore snapshot half of the time — commits are rare events
	// and a uniformly random schedule almost never lands a snapshot next to one.
	r.Prefer = func(en []*simrt.Parked) *simrt.Parked {
		if r.LastKind != "ms.update" || !r.S.Chance(500) {
			return nil
		}
		for _, p := range en {
			if p.Kind == "ms.iter" {
				r.Probe("conc.snapshot-right-after-update")
				return p
			}
		}
		return nil
	}
	r.Loop(func() bool { r.mu.Lock(); defer r.mu.Unlock(); return fin == total }, 30*time.Second)
	r.Prefer = nil
	if !r.Budget {
		r.FairDrain(func() bool { r.mu.Lock(); defer r.mu.Unlock(); return fin == total }, 20000, 20*time.Second)
	}
	if fin == total && !r.Budget {
		known := map[string]*concBatch{}
		for _, b := range batches {
			for _, id := range b.ids {
				known[id] = b
			}
		}
		for _, q := range queries {
			if !q.done {
				continue
			}
			seen := map[string]int{}
			for _, id := range q.ids {
				seen[id]++
				if known[id] == nil {
					r.Violate("C14", "unknown-row", "query %s returned row %s that was never ingested", q.tag, id)
				}
			}
			if q.err != nil {
				r.Probe("conc.query-error")
				continue
			}
			r.NonTriv["C14"] = true
			for id, n := range seen {
				if n > 1 {
					r.Violate("C14", "duplicate-row-in-query", "query %s (invoked step %d, returned step %d) finished with nil error but returned row %s %d times", q.tag, q.invoke, q.ret, id, n)
				}
			}
			for _, b := range batches {
				if b.acked && b.err == nil && b.ackStep < q.invoke {
					for _, id := range b.ids {
						if seen[id] == 0 {
							r.Violate("C14", "acked-row-missing-in-query", "query %s (invoked step %d, returned step %d) finished with nil error but misses row %s acknowledged at step %d", q.tag, q.invoke, q.ret, id, b.ackStep)
						}
					}
				}
			}
		}
	}
	ok := r.Teardown(func() {
		cctx, cancel := context.WithCancel(context.Background())
		cancel()
		simrt.GoNamed("teardown-stop", func() { eng.Stop(cctx) })
	})
	if !ok {
		r.Dirty = true
	}
}

func init() { otherScenarios["merge"] = RunMerge }
