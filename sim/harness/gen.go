package harness

import (
	"encoding/json"
	"fmt"
	"math"
	"strings"
	"time"
	"unicode"

	bs "github.com/danthegoodman1/bloomsearch"
)

// Generators for rows, tokenizers, queries and prefilters (DESIGN.md §5, S-content). Everything is
// drawn from the workload tape.

type namedUint uint64
type namedF32 float32
type namedInt int16

var genKeys = []string{"a", "b", "user", "msg", "level", "tags", "svc", "x.y", "a.b", "a.b.c", "k:v", "", "ünï", "sp ace", "*", "a\\b", "::", "q?", ".lead", "trail.", "p", "ts", "score", "u", "n"}
var genWords = []string{"error", "Error", "ERROR", "info", "login", "failed", "timeout", "Payment", "processed", "a::b", "x", "ümlaut", "ÉCOLE", "naïve", "42", "3.14", "true", "null", "foo-bar", "foo_bar", "foo.bar", "user@example.com", "İstanbul", "ǅ", "ß", "日本語", "tab\tsep", "new\nline", "nb sp", "em sp", "<tag>", "q\"uote", "back\\slash", "", " ", "  double  space  "}

var genMinMaxKeys = []string{"n", "ts", "score", "u"}

// genNumeric returns a numeric Go value of a tape-chosen kind and magnitude.
func genNumeric(w *Tape) any {
	mag := []int64{0, 1, -1, 2, 7, 100, -100, 1000, 65535, 1 << 31, -(1 << 31), 1 << 53, (1 << 53) + 1, math.MaxInt64, math.MinInt64, math.MaxInt64 - 1, math.MinInt64 + 1}
	m := mag[w.Draw(len(mag))]
	switch w.Draw(18) {
	case 0:
		return int(m)
	case 1:
		return int8(m)
	case 2:
		return int16(m)
	case 3:
		return int32(m)
	case 4:
		return m
	case 5:
		return uint(m)
	case 6:
		return uint8(m)
	case 7:
		return uint16(m)
	case 8:
		return uint32(m)
	case 9:
		return uint64(m)
	case 10:
		return []uint64{math.MaxUint64, math.MaxUint64 - 1, 1 << 63, (1 << 63) + 1, (1 << 63) - 1}[w.Draw(5)]
	case 11:
		return float32(m) / float32([]int{1, 2, 3, 10}[w.Draw(4)])
	case 12:
		return float64(m) / float64([]int{1, 2, 3, 10, 1000}[w.Draw(5)])
	case 13:
		return []float64{0.5, -0.5, 1.5, -1.5, 2.999, 9.2233720368547758e18, -9.2233720368547758e18, 9.3e18, -9.3e18, 1e19, -1e19, 1e300, -1e300, 5e-324, -0.0, 1.7976931348623157e308}[w.Draw(16)]
	case 14:
		return time.Duration(m)
	case 15:
		return namedUint(m)
	case 16:
		return namedF32(float32(m) / 4)
	default:
		return namedInt(m)
	}
}

func genString(w *Tape) string {
	n := 1 + w.Draw(3)
	parts := make([]string, n)
	for i := range parts {
		parts[i] = genWords[w.Draw(len(genWords))]
	}
	sep := []string{" ", " ", "  ", "\t", "\n", " ", " ", ",", ""}[w.Draw(9)]
	return strings.Join(parts, sep)
}

func genLeaf(w *Tape) any {
	switch w.Draw(12) {
	case 0, 1, 2, 3:
		return genString(w)
	case 4, 5:
		return genNumeric(w)
	case 6:
		return w.Bool()
	case 7:
		return nil
	case 8:
		return json.Number([]string{"0", "-0", "1e3", "1E3", "1.50", "100", "9007199254740993", "0.1e-2", "123456789012345678901234567890", "-1.5e+10"}[w.Draw(10)])
	case 9:
		return genWords[w.Draw(len(genWords))]
	default:
		return genString(w)
	}
}

func genValue(w *Tape, depth int) any {
	if depth >= 3 {
		return genLeaf(w)
	}
	switch w.Draw(10) {
	case 0, 1:
		m := map[string]any{}
		n := w.Draw(4)
		for i := 0; i < n; i++ {
			m[genKeys[w.Draw(len(genKeys))]] = genValue(w, depth+1)
		}
		return m
	case 2:
		n := w.Draw(4)
		arr := make([]any, n)
		for i := range arr {
			arr[i] = genValue(w, depth+1)
		}
		return arr
	case 3:
		// Raw JSON: a re-marshaled value, possibly with duplicate keys or exotic number literals.
		switch w.Draw(24) {
		case 0:
			// Duplicate keys (known finding F6): kept rare so most runs stay clean of it.
			return json.RawMessage(`{"dup":"first","dup":"second","z":[1,{"dup":true}]}`)
		case 1, 2, 3, 4, 5, 6:
			return json.RawMessage(`{"a":{"b":"nested raw"},"a.b":"flat raw"}`)
		case 7, 8, 9, 10, 11, 12:
			return json.RawMessage(`[1.0,-0,2e2,"s",null,{"k":"v v"}]`)
		default:
			b, err := json.Marshal(genValue(w, depth+1))
			if err != nil {
				return "rawfail"
			}
			return json.RawMessage(b)
		}
	default:
		return genLeaf(w)
	}
}

// genRow builds one row. Top-level minmax candidate keys carry numeric values most of the time.
func genRow(w *Tape, id string) map[string]any {
	row := map[string]any{"_id": id}
	row["p"] = []any{"p0", "p1", "p2", "", "p0"}[w.Draw(5)]
	for _, k := range genMinMaxKeys {
		switch w.Draw(6) {
		case 0:
			// absent
		case 1:
			row[k] = []any{"not-a-number", nil, true, []any{1, 2}, map[string]any{"v": 1}, json.Number("12")}[w.Draw(6)]
		default:
			row[k] = genNumeric(w)
		}
	}
	n := w.Draw(6)
	for i := 0; i < n; i++ {
		row[genKeys[w.Draw(len(genKeys))]] = genValue(w, 0)
	}
	if w.Draw(3) == 0 {
		row["msg"] = genString(w)
	}
	if w.Draw(4) == 0 {
		row["level"] = []string{"error", "info", "warn", "ERROR"}[w.Draw(4)]
	}
	return row
}

// ---- tokenizers ----

func tokAlnum(text string) []string {
	return strings.FieldsFunc(strings.ToLower(text), func(r rune) bool { return !unicode.IsLetter(r) && !unicode.IsDigit(r) })
}

func tokTrigram(text string) []string {
	rs := []rune(strings.ToLower(text))
	if len(rs) < 3 {
		if len(rs) == 0 {
			return nil
		}
		return []string{string(rs)}
	}
	out := make([]string, 0, len(rs)-2)
	for i := 0; i+3 <= len(rs); i++ {
		out = append(out, string(rs[i:i+3]))
	}
	return out
}

func tokIdentity(text string) []string { return []string{text} }

// tokSplitSpace yields empty tokens and duplicates.
func tokSplitSpace(text string) []string { return strings.Split(text, " ") }

type tokenizerChoice struct {
	Name string
	Fn   bs.ValueTokenizerFunc
	Spec func(string) []string
}

func tokenizerByIndex(i int) tokenizerChoice {
	switch i {
	case 1:
		return tokenizerChoice{"alnum", tokAlnum, tokAlnum}
	case 2:
		return tokenizerChoice{"trigram", tokTrigram, tokTrigram}
	case 3:
		return tokenizerChoice{"identity", tokIdentity, tokIdentity}
	case 4:
		return tokenizerChoice{"split-space", tokSplitSpace, tokSplitSpace}
	}
	// The engine gets its own default tokenizer (which enables its zero-alloc fast path); the
	// Spec side calls the documented definition directly.
	return tokenizerChoice{"default", bs.BasicWhitespaceLowerTokenizer, SpecDefaultTokenizer}
}

// ---- partition functions ----

func partitionFuncByIndex(i int) (string, bs.PartitionFunc) {
	switch i {
	case 1:
		return "by-p", func(row map[string]any) string {
			if s, ok := row["p"].(string); ok {
				return s
			}
			return ""
		}
	case 2:
		return "constant", func(row map[string]any) string { return "all" }
	case 3:
		return "by-level", func(row map[string]any) string {
			if s, ok := row["level"].(string); ok {
				return "lv-" + s
			}
			return "lv-none"
		}
	}
	return "none", nil
}

// ---- queries ----

// entryPool collects real entries of stored rows to draw query leaves from.
type entryPool struct {
	fields []string
	tokens []string
	ft     [][2]string
	leaves []SpecLeaf
}

func buildEntryPool(rows []*SpecRow, w *Tape, limit int) *entryPool {
	p := &entryPool{}
	for _, sr := range rows {
		fs := sortedKeys(sr.Fields)
		for _, f := range fs {
			if len(p.fields) < limit || w.Draw(8) == 0 {
				p.fields = append(p.fields, f)
			}
		}
		for _, l := range sr.Leaves {
			if len(p.leaves) < limit || w.Draw(8) == 0 {
				p.leaves = append(p.leaves, l)
			}
		}
		for _, k := range sortedKeys(sr.FieldTokens) {
			path, tok, _ := strings.Cut(k, "\x00")
			if len(p.ft) < limit || w.Draw(8) == 0 {
				p.ft = append(p.ft, [2]string{path, tok})
				p.tokens = append(p.tokens, tok)
			}
		}
	}
	return p
}

func (p *entryPool) bloomLeaf(w *Tape) bs.BloomExpression {
	real := w.Draw(10) < 7
	switch w.Draw(3) {
	case 0:
		if real && len(p.fields) > 0 {
			return bs.Field(p.fields[w.Draw(len(p.fields))])
		}
		return bs.Field([]string{"nope", "", "a", "user.name", "x", "a.", ".a", "msg.x"}[w.Draw(8)])
	case 1:
		if real && len(p.tokens) > 0 {
			return bs.Token(p.tokens[w.Draw(len(p.tokens))])
		}
		return bs.Token([]string{"absent", "Error", "", "erro", "errors", "TIMEOUT"}[w.Draw(6)])
	default:
		if real && len(p.ft) > 0 {
			e := p.ft[w.Draw(len(p.ft))]
			return bs.FieldToken(e[0], e[1])
		}
		if len(p.ft) > 1 {
			// Near miss: a real path with another leaf's real token.
			a, b := p.ft[w.Draw(len(p.ft))], p.ft[w.Draw(len(p.ft))]
			return bs.FieldToken(a[0], b[1])
		}
		return bs.FieldToken("msg", "absent")
	}
}

func (p *entryPool) bloomTree(w *Tape, depth int) bs.BloomExpression {
	if depth >= 3 || w.Draw(5) < 2 {
		return p.bloomLeaf(w)
	}
	switch w.Draw(12) {
	case 0:
		return bs.BloomExpression{ExpressionType: bs.BloomExpressionOr} // empty Or: false
	case 1:
		return bs.BloomExpression{ExpressionType: bs.BloomExpressionAnd} // empty And: true
	case 2:
		return bs.BloomExpression{ExpressionType: bs.BloomExpressionCondition} // nil condition: true
	case 3:
		return bs.BloomExpression{ExpressionType: "XOR", Children: []bs.BloomExpression{p.bloomLeaf(w)}} // unknown: false
	case 4:
		return bs.BloomExpression{ExpressionType: bs.BloomExpressionCondition, Condition: &bs.BloomCondition{Type: "FUZZY", Field: "a", Token: "b"}}
	}
	n := 1 + w.Draw(3)
	kids := make([]bs.BloomExpression, n)
	for i := range kids {
		kids[i] = p.bloomTree(w, depth+1)
	}
	if w.Draw(4) == 0 {
		// A sibling of another kind over the same text (Field(x) next to Token(x), ...): the
		// shapes a matcher that keys conditions by their strings would confuse.
		if c := kids[w.Draw(len(kids))].Condition; c != nil {
			text := c.Field
			if text == "" {
				text = c.Token
			}
			switch w.Draw(3) {
			case 0:
				kids = append(kids, bs.Field(text))
			case 1:
				kids = append(kids, bs.Token(text))
			default:
				kids = append(kids, bs.FieldToken(text, c.Token))
			}
		}
	}
	if w.Bool() {
		return bs.And(kids...)
	}
	return bs.Or(kids...)
}

func regexQuoteSub(text string, w *Tape) string {
	rs := []rune(text)
	if len(rs) == 0 {
		return "^$"
	}
	a := w.Draw(len(rs))
	b := a + 1 + w.Draw(len(rs)-a)
	sub := string(rs[a:b])
	pat := ""
	for _, r := range sub {
		if strings.ContainsRune(`\.+*?()|[]{}^$`, r) {
			pat += `\` + string(r)
		} else {
			pat += string(r)
		}
	}
	switch w.Draw(5) {
	case 0:
		return "^" + pat
	case 1:
		return pat + "$"
	case 2:
		return "(?i)" + pat
	}
	return pat
}

func (p *entryPool) regexLeaf(w *Tape) bs.RegexExpression {
	if len(p.leaves) > 0 && w.Draw(10) < 8 {
		l := p.leaves[w.Draw(len(p.leaves))]
		field := l.Path
		// Sometimes address the leaf through an ancestor path.
		if i := strings.LastIndex(field, "."); i > 0 && w.Draw(3) == 0 {
			field = field[:i]
		}
		return bs.FieldRegex(field, regexQuoteSub(l.Text, w))
	}
	return bs.FieldRegex([]string{"msg", "nope", "", "a", "level"}[w.Draw(5)], []string{"err", "^$", ".", "(?i)ERROR", "[0-9]+", "zzz"}[w.Draw(6)])
}

func (p *entryPool) regexTree(w *Tape, depth int) bs.RegexExpression {
	if depth >= 2 || w.Draw(5) < 3 {
		return p.regexLeaf(w)
	}
	switch w.Draw(10) {
	case 0:
		return bs.RegexExpression{ExpressionType: bs.RegexExpressionOr} // false
	case 1:
		return bs.RegexExpression{ExpressionType: bs.RegexExpressionAnd} // true
	}
	n := 1 + w.Draw(3)
	kids := make([]bs.RegexExpression, n)
	for i := range kids {
		kids[i] = p.regexTree(w, depth+1)
	}
	if w.Bool() {
		return bs.RegexAnd(kids...)
	}
	return bs.RegexOr(kids...)
}

// ---- prefilters ----

func genInt64Operand(w *Tape, values []int64) int64 {
	if len(values) > 0 && w.Draw(10) < 7 {
		v := values[w.Draw(len(values))]
		switch w.Draw(4) {
		case 0:
			if v < math.MaxInt64 {
				return v + 1
			}
		case 1:
			if v > math.MinInt64 {
				return v - 1
			}
		}
		return v
	}
	return []int64{0, 1, -1, math.MaxInt64, math.MinInt64, math.MaxInt64 - 1, math.MinInt64 + 1, 100, -100}[w.Draw(9)]
}

func genNumericCondition(w *Tape, values []int64) bs.NumericCondition {
	x := genInt64Operand(w, values)
	switch w.Draw(11) {
	case 0:
		return bs.NumericEquals(x)
	case 1:
		return bs.NumericNotEquals(x)
	case 2:
		return bs.NumericGreaterThan(x)
	case 3:
		return bs.NumericGreaterThanEqual(x)
	case 4:
		return bs.NumericLessThan(x)
	case 5:
		return bs.NumericLessThanEqual(x)
	case 6:
		return bs.NumericIn(x, genInt64Operand(w, values))
	case 7:
		return bs.NumericNotIn(x, genInt64Operand(w, values))
	case 8:
		return bs.NumericBetween(x, genInt64Operand(w, values)) // possibly inverted
	case 9:
		return bs.NumericNotBetween(x, genInt64Operand(w, values))
	}
	return bs.NumericCondition{Operator: "LIKE", Value: x} // unknown operator: false
}

func genStringCondition(w *Tape) bs.StringCondition {
	v := []string{"p0", "p1", "p2", "all", "lv-error", "lv-none", "", "p", "zz"}[w.Draw(9)]
	u := []string{"p0", "p1", "p2", "lv-info", "a", "zzz"}[w.Draw(6)]
	switch w.Draw(10) {
	case 0:
		return bs.PartitionEquals(v)
	case 1:
		return bs.PartitionNotEquals(v)
	case 2:
		return bs.PartitionIn(v, u)
	case 3:
		return bs.PartitionNotIn(v, u)
	case 4:
		return bs.PartitionGreaterThan(v)
	case 5:
		return bs.PartitionGreaterThanEqual(v)
	case 6:
		return bs.PartitionLessThan(v)
	case 7:
		return bs.PartitionLessThanEqual(v)
	case 8:
		return bs.PartitionBetween(v, u)
	}
	return bs.PartitionNotBetween(v, u)
}

func genPrefilterLeaf(w *Tape, values map[string][]int64) bs.PrefilterExpression {
	if w.Draw(3) == 0 {
		return bs.Partition(genStringCondition(w))
	}
	k := append(append([]string{}, genMinMaxKeys...), "missing")[w.Draw(len(genMinMaxKeys)+1)]
	return bs.MinMax(k, genNumericCondition(w, values[k]))
}

func genPrefilterTree(w *Tape, values map[string][]int64, depth int) bs.PrefilterExpression {
	if depth >= 2 || w.Draw(5) < 3 {
		return genPrefilterLeaf(w, values)
	}
	switch w.Draw(12) {
	case 0:
		return bs.PrefilterExpression{ExpressionType: bs.PrefilterExpressionOr}
	case 1:
		return bs.PrefilterExpression{ExpressionType: bs.PrefilterExpressionAnd}
	case 2:
		return bs.PrefilterExpression{ExpressionType: bs.PrefilterExpressionCondition}
	case 3:
		return bs.PrefilterExpression{ExpressionType: "NOT", Children: []bs.PrefilterExpression{genPrefilterLeaf(w, values)}}
	}
	n := 1 + w.Draw(3)
	kids := make([]bs.PrefilterExpression, n)
	for i := range kids {
		kids[i] = genPrefilterTree(w, values, depth+1)
	}
	if w.Bool() {
		return bs.PrefilterAnd(kids...)
	}
	return bs.PrefilterOr(kids...)
}

// genQuery draws a whole query; kinds: bloom only, regex only, prefilter only, combinations.
func genQuery(w *Tape, pool *entryPool, values map[string][]int64) *bs.Query {
	q := &bs.Query{}
	shape := w.Draw(10)
	if shape == 0 {
		return nil // nil query: match all
	}
	if shape <= 6 {
		e := pool.bloomTree(w, 0)
		q.Bloom = &bs.BloomQuery{Expression: &e}
	}
	if shape == 2 || shape == 7 || shape == 8 {
		e := pool.regexTree(w, 0)
		q.Regex = &bs.RegexQuery{Expression: &e}
	}
	if shape == 3 || shape == 4 || shape == 8 || shape == 9 {
		e := genPrefilterTree(w, values, 0)
		q.Prefilter = &bs.QueryPrefilter{Expression: &e}
	} else if w.Draw(6) == 0 {
		q.Prefilter = bs.NewQueryPrefilter() // empty prefilter object
	}
	return q
}

func describeQuery(q *bs.Query) string {
	b, err := json.Marshal(q)
	if err != nil {
		return fmt.Sprintf("%+v", q)
	}
	return string(b)
}
