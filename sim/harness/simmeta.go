package harness

import (
	"context"
	"fmt"
	"iter"
	"sort"
	"sync"

	bs "github.com/danthegoodman1/bloomsearch"
	"verifsim/simrt"
)

// MetaCall is one entry of the MetaStore call log.
type MetaCall struct {
	Step    int
	End     int
	Kind    string // "update", "iter"
	Writes  []string
	Deletes []string
	Tag     string
	Err     error
	Applied bool
}

// MetaBuggify selects legal-but-unusual MetaStore behaviours (DESIGN.md §2.7).
type MetaBuggify struct {
	IgnorePrefilter bool // yield everything, unfiltered
	FilterBlocks    bool // yield DataBlocks as a prefiltered subset (what MemoryMetaStore does)
	ReverseBlocks   bool // yield DataBlocks in reverse offset order
	ReverseFiles    bool // yield files in reverse pointer order
	RotateFiles     int  // rotate the file order by this much
}

// SimMeta is the simulated MetaStore: atomic Update, gated iteration that honours ctx.
type SimMeta struct {
	r     *Run
	mu    sync.Mutex
	files map[string]bs.FileMetadata
	Bug   MetaBuggify
	Calls []*MetaCall
	nInj  int

	ActiveIters map[string]int // tag -> iterators that have started and not returned (C21)
}

func NewSimMeta(r *Run) *SimMeta {
	return &SimMeta{r: r, files: map[string]bs.FileMetadata{}, ActiveIters: map[string]int{}}
}

func (m *SimMeta) inject(kind, site string) error {
	m.mu.Lock()
	m.nInj++
	e := &InjErr{N: 10000 + m.nInj, Kind: kind, Site: site}
	m.mu.Unlock()
	m.r.noteMetaInj(e)
	m.r.Logf("inject %v", e)
	return e
}

func (m *SimMeta) Update(ctx context.Context, writes []bs.WriteOperation, deletes []bs.DeleteOperation) error {
	c := &MetaCall{Step: m.r.Step, Kind: "update", Tag: tagOf(ctx)}
	for _, w := range writes {
		c.Writes = append(c.Writes, string(w.FilePointerBytes))
	}
	for _, d := range deletes {
		c.Deletes = append(c.Deletes, string(d.FilePointerBytes))
	}
	m.mu.Lock()
	m.Calls = append(m.Calls, c)
	m.mu.Unlock()
	dec := simrt.Gate("ms.update", fmt.Sprintf("w%v d%v", c.Writes, c.Deletes), ctx)
	var err error
	switch dec.Fault {
	case FErr, FLateErr, FShort:
		err = m.inject("ms.update", "")
	case FCtx:
		err = ctx.Err()
	default:
		m.mu.Lock()
		for _, w := range writes {
			if w.FileMetadata != nil {
				m.files[string(w.FilePointerBytes)] = cloneFileMetadata(*w.FileMetadata)
			}
		}
		for _, d := range deletes {
			delete(m.files, string(d.FilePointerBytes))
		}
		c.Applied = true
		m.mu.Unlock()
	}
	m.mu.Lock()
	c.End = m.r.Step
	c.Err = err
	m.mu.Unlock()
	return err
}

func cloneFileMetadata(md bs.FileMetadata) bs.FileMetadata {
	out := md
	out.DataBlocks = make([]bs.DataBlockMetadata, len(md.DataBlocks))
	for i, b := range md.DataBlocks {
		nb := b
		if b.MinMaxIndexes != nil {
			nb.MinMaxIndexes = make(map[string]bs.MinMaxIndex, len(b.MinMaxIndexes))
			for k, v := range b.MinMaxIndexes {
				nb.MinMaxIndexes[k] = v
			}
		}
		out.DataBlocks[i] = nb
	}
	return out
}

func (m *SimMeta) GetMaybeFilesForQuery(ctx context.Context, prefilter *bs.QueryPrefilter) iter.Seq2[bs.MaybeFile, error] {
	return func(yield func(bs.MaybeFile, error) bool) {
		tag := tagOf(ctx)
		m.mu.Lock()
		m.ActiveIters[tag]++
		m.mu.Unlock()
		defer func() {
			m.mu.Lock()
			m.ActiveIters[tag]--
			m.mu.Unlock()
		}()
		dec := simrt.Gate("ms.iter", tag, ctx)
		switch dec.Fault {
		case FErr, FLateErr, FShort:
			yield(bs.MaybeFile{}, m.inject("ms.iter", tag))
			return
		case FCtx:
			return
		}
		// Snapshot under the lock, yield after releasing it.
		m.mu.Lock()
		ptrs := make([]string, 0, len(m.files))
		for p := range m.files {
			ptrs = append(ptrs, p)
		}
		sort.Strings(ptrs)
		if m.Bug.ReverseFiles {
			for i, j := 0, len(ptrs)-1; i < j; i, j = i+1, j-1 {
				ptrs[i], ptrs[j] = ptrs[j], ptrs[i]
			}
		}
		if n := len(ptrs); n > 0 && m.Bug.RotateFiles > 0 {
			k := m.Bug.RotateFiles % n
			ptrs = append(ptrs[k:], ptrs[:k]...)
		}
		snap := make([]bs.MaybeFile, 0, len(ptrs))
		for _, p := range ptrs {
			md := cloneFileMetadata(m.files[p])
			if !m.Bug.IgnorePrefilter && prefilter != nil {
				kept := bs.FilterDataBlocks(md.DataBlocks, prefilter)
				if len(kept) == 0 {
					continue
				}
				if m.Bug.FilterBlocks {
					md.DataBlocks = kept
				}
			}
			if m.Bug.ReverseBlocks {
				for i, j := 0, len(md.DataBlocks)-1; i < j; i, j = i+1, j-1 {
					md.DataBlocks[i], md.DataBlocks[j] = md.DataBlocks[j], md.DataBlocks[i]
				}
			}
			snap = append(snap, bs.MaybeFile{PointerBytes: []byte(p), Metadata: md})
		}
		m.mu.Unlock()

		for _, f := range snap {
			dec := simrt.Gate("ms.yield", tag+" "+string(f.PointerBytes), ctx)
			switch dec.Fault {
			case FErr, FLateErr, FShort:
				yield(bs.MaybeFile{}, m.inject("ms.yield", tag+" "+string(f.PointerBytes)))
				return
			case FCtx:
				return
			}
			if ctx.Err() != nil {
				return
			}
			if !yield(f, nil) {
				return
			}
		}
	}
}

// ---- controller-side inspection ----

func (m *SimMeta) Pointers() []string {
	m.mu.Lock()
	defer m.mu.Unlock()
	out := make([]string, 0, len(m.files))
	for p := range m.files {
		out = append(out, p)
	}
	sort.Strings(out)
	return out
}

func (m *SimMeta) Get(ptr string) (bs.FileMetadata, bool) {
	m.mu.Lock()
	defer m.mu.Unlock()
	md, ok := m.files[ptr]
	return md, ok
}

// Put installs metadata directly (external writer, corruption scenarios).
func (m *SimMeta) Put(ptr string, md bs.FileMetadata) {
	m.mu.Lock()
	m.files[ptr] = md
	m.mu.Unlock()
}

func (m *SimMeta) CallsSnapshot() []MetaCall {
	m.mu.Lock()
	defer m.mu.Unlock()
	out := make([]MetaCall, len(m.Calls))
	for i, c := range m.Calls {
		out[i] = *c
	}
	return out
}

func (m *SimMeta) ActiveIterCount(tag string) int {
	m.mu.Lock()
	defer m.mu.Unlock()
	return m.ActiveIters[tag]
}

// GatedMeta wraps a real MetaStore (MemoryMetaStore, FileSystemDataStore) with gates and fault
// sites; the real code runs behind it unchanged.
type GatedMeta struct {
	r     *Run
	Inner bs.MetaStore
	mu    sync.Mutex
	Calls []*MetaCall
	nInj  int

	ActiveIters map[string]int
}

func NewGatedMeta(r *Run, inner bs.MetaStore) *GatedMeta {
	return &GatedMeta{r: r, Inner: inner, ActiveIters: map[string]int{}}
}

func (m *GatedMeta) inject(kind, site string) error {
	m.mu.Lock()
	m.nInj++
	e := &InjErr{N: 20000 + m.nInj, Kind: kind, Site: site}
	m.mu.Unlock()
	m.r.noteMetaInj(e)
	m.r.Logf("inject %v", e)
	return e
}

func (m *GatedMeta) Update(ctx context.Context, writes []bs.WriteOperation, deletes []bs.DeleteOperation) error {
	c := &MetaCall{Step: m.r.Step, Kind: "update", Tag: tagOf(ctx)}
	for _, w := range writes {
		c.Writes = append(c.Writes, string(w.FilePointerBytes))
	}
	for _, d := range deletes {
		c.Deletes = append(c.Deletes, string(d.FilePointerBytes))
	}
	m.mu.Lock()
	m.Calls = append(m.Calls, c)
	m.mu.Unlock()
	dec := simrt.Gate("ms.update", fmt.Sprintf("w%v d%v", c.Writes, c.Deletes), ctx)
	var err error
	switch dec.Fault {
	case FErr, FLateErr, FShort:
		err = m.inject("ms.update", "")
	case FCtx:
		err = ctx.Err()
	default:
		err = m.Inner.Update(ctx, writes, deletes)
		c.Applied = err == nil
	}
	m.mu.Lock()
	c.End = m.r.Step
	c.Err = err
	m.mu.Unlock()
	return err
}

func (m *GatedMeta) GetMaybeFilesForQuery(ctx context.Context, prefilter *bs.QueryPrefilter) iter.Seq2[bs.MaybeFile, error] {
	inner := m.Inner.GetMaybeFilesForQuery(ctx, prefilter)
	return func(yield func(bs.MaybeFile, error) bool) {
		tag := tagOf(ctx)
		m.mu.Lock()
		m.ActiveIters[tag]++
		m.mu.Unlock()
		defer func() {
			m.mu.Lock()
			m.ActiveIters[tag]--
			m.mu.Unlock()
		}()
		dec := simrt.Gate("ms.iter", tag, ctx)
		switch dec.Fault {
		case FErr, FLateErr, FShort:
			yield(bs.MaybeFile{}, m.inject("ms.iter", tag))
			return
		case FCtx:
			return
		}
		for f, err := range inner {
			if err != nil {
				yield(f, err)
				return
			}
			dec := simrt.Gate("ms.yield", tag+" "+string(f.PointerBytes), ctx)
			switch dec.Fault {
			case FErr, FLateErr, FShort:
				yield(bs.MaybeFile{}, m.inject("ms.yield", tag+" "+string(f.PointerBytes)))
				return
			case FCtx:
				return
			}
			if !yield(f, nil) {
				return
			}
		}
	}
}

func (m *GatedMeta) CallsSnapshot() []MetaCall {
	m.mu.Lock()
	defer m.mu.Unlock()
	out := make([]MetaCall, len(m.Calls))
	for i, c := range m.Calls {
		out[i] = *c
	}
	return out
}

func (m *GatedMeta) ActiveIterCount(tag string) int {
	m.mu.Lock()
	defer m.mu.Unlock()
	return m.ActiveIters[tag]
}
