package harness

import (
	"bufio"
	"crypto/sha256"
	"encoding/hex"
	"encoding/json"
	"fmt"
	"os"
	"runtime"
	"runtime/debug"
	"strconv"
	"strings"
	"syscall"
	"testing"
	"testing/synctest"
	"time"

	"verifsim/simos"
	"verifsim/simrt"
)

// Result is one line of the worker's JSONL output.
type Result struct {
	Seed        int64               `json:"seed"`
	Scenario    string              `json:"scenario"`
	Digest      string              `json:"digest"`
	SchedDigest string              `json:"sched_digest"`
	Steps       int                 `json:"steps"`
	SimMs       int64               `json:"sim_ms"`
	WallUs      int64               `json:"wall_us"`
	Faults      map[string]int      `json:"faults,omitempty"`
	Probes      map[string]int      `json:"probes,omitempty"`
	NonTrivial  map[string]bool     `json:"nontrivial,omitempty"`
	Violations  []Violation         `json:"violations,omitempty"`
	Budget      bool                `json:"budget,omitempty"`
	Dirty       bool                `json:"dirty,omitempty"`
	Stdio       string              `json:"stdio,omitempty"`
	Tapes       map[string][]uint32 `json:"tapes,omitempty"`
	Trace       []string            `json:"trace,omitempty"`
	Sched       []string            `json:"sched,omitempty"`
	Samples     []any               `json:"samples,omitempty"`
	YieldParks  uint64              `json:"yield_parks,omitempty"`
	GateParks   uint64              `json:"gate_parks,omitempty"`
	Panic       string              `json:"panic,omitempty"`
	Enum        bool                `json:"enum,omitempty"`
	EnumPos     int                 `json:"enum_pos,omitempty"`
	EnumVariant int                 `json:"enum_variant,omitempty"`
	EnumCount   int                 `json:"enum_count,omitempty"`
	EnumKinds   []string            `json:"enum_kinds,omitempty"`
	Last        bool                `json:"last"`
}

// ExecOpts selects how a run is executed.
type ExecOpts struct {
	Tapes       map[string][]uint32
	Keep        bool
	Enum        bool
	EnumPos     int // -1 = reference execution (count only)
	EnumVariant int
}

// ReplayFile is what a violation is written as and replayed from.
type ReplayFile struct {
	Property    string              `json:"property"`
	Kind        string              `json:"kind"`
	Message     string              `json:"message"`
	Seed        int64               `json:"seed"`
	Scenario    string              `json:"scenario"`
	Tapes       map[string][]uint32 `json:"tapes"`
	Original    map[string][]uint32 `json:"original_tapes,omitempty"`
	Minimised   bool                `json:"minimised"`
	Enum        bool                `json:"enum,omitempty"`
	EnumPos     int                 `json:"enum_pos,omitempty"`
	EnumVariant int                 `json:"enum_variant,omitempty"`
	RepoTree    string              `json:"repo_tree,omitempty"`
	Workload    any                 `json:"workload,omitempty"`
	Trace       []string            `json:"trace,omitempty"`
	Sched       []string            `json:"schedule,omitempty"`
	Stats       map[string]any      `json:"stats,omitempty"`
}

const (
	streamW = 0x57
	streamS = 0x53
	streamF = 0x46
)

var stdioCapture *os.File
var stdioOffset int64

func captureStdio(path string) {
	f, err := os.OpenFile(path, os.O_CREATE|os.O_RDWR|os.O_TRUNC, 0o644)
	if err != nil {
		panic(err)
	}
	stdioCapture = f
	// Everything the engine or its dependencies write to fd 1 / fd 2 lands in the capture file.
	syscall.Dup2(int(f.Fd()), 1)
	syscall.Dup2(int(f.Fd()), 2)
}

func stdioNew() string {
	if stdioCapture == nil {
		return ""
	}
	st, err := stdioCapture.Stat()
	if err != nil || st.Size() <= stdioOffset {
		return ""
	}
	buf := make([]byte, min(st.Size()-stdioOffset, 2048))
	stdioCapture.ReadAt(buf, stdioOffset)
	stdioOffset = st.Size()
	return string(buf)
}

// execute runs one simulated execution inside the (already open) bubble.
func execute(seed int64, scenario string, o ExecOpts) (res *Result) {
	tapes, keepTrace := o.Tapes, o.Keep
	var w, s, f *Tape
	if tapes != nil {
		w, s, f = NewReplayTape(tapes["w"]), NewReplayTape(tapes["s"]), NewReplayTape(tapes["f"])
	} else {
		w, s, f = NewGenTape(uint64(seed), streamW), NewGenTape(uint64(seed), streamS), NewGenTape(uint64(seed), streamF)
	}
	r := NewRun(seed, scenario, w, s, f)
	r.Keep = keepTrace
	r.EnumOn, r.EnumPos, r.EnumVariant = o.Enum, o.EnumPos, o.EnumVariant
	res = &Result{Seed: seed, Scenario: scenario, Last: true, Enum: o.Enum, EnumPos: o.EnumPos, EnumVariant: o.EnumVariant}

	// Two collections empty every sync.Pool (primary and victim caches), so the engine's codec
	// and scan-buffer pools start each run in the same state whatever ran before in this
	// process; no collection happens during the run.
	runtime.GC()
	runtime.GC()
	debug.SetGCPercent(-1)
	defer debug.SetGCPercent(100)

	simrt.BeginRun()
	simrt.YieldEnabled = nil
	simrt.OnPanic = func(actor string, v any, stack []byte) {
		// "*" = counts against whichever property the scenario is being run for: the library
		// crashed the process it is embedded in.
		st := string(stack)
		if len(st) > 3000 {
			st = st[:3000]
		}
		where := "library"
		if !strings.Contains(st, "github.com/danthegoodman1/bloomsearch.") {
			where = "harness"
		}
		if where == "library" {
			r.Violate("*", "engine-panic", "goroutine %s panicked: %v\n%s", actor, v, st)
		} else {
			res.Panic = fmt.Sprintf("harness goroutine %s panicked: %v\n%s", actor, v, st)
		}
		r.Fatal = true
	}
	simos.Current = simos.NewFS()
	simrt.SimSeed = uint64(seed)*2654435761 + 0x9e3779b97f4a7c15 | 1
	simrt.SimRand = uint64(seed)*40503 + 0x632be59bd9b4e019 | 1
	simrt.SimMapSeed = uint64(seed)*0x9e3779b1 + 0x7f4a7c159e3779b9 | 1
	simrt.SimIter = uint64(seed)*0x85ebca6b + 0xc2b2ae3d27d4eb4f | 1
	simrt.SimMath = uint64(seed)*0xff51afd7 + 0xed558ccd165667b1 | 1
	simrt.SimStarve = 1 + uint32(uint64(seed)>>3)&1 // both mutex hand-off disciplines get explored, one per run
	simrt.SimNoPreempt = 1
	simrt.SetMode(simrt.ModeCoarse)
	r.Start = time.Now()
	stdioNew()
	wall := time.Now() // fake clock inside the bubble; wall time is measured by the driver
	_ = wall

	func() {
		defer func() {
			if p := recover(); p != nil {
				res.Panic = fmt.Sprintf("%v\n%s", p, debug.Stack())
				r.Dirty = true
			}
		}()
		name, variant, _ := strings.Cut(scenario, ":")
		switch name {
		case "life":
			RunLife(r, variant)
		default:
			runOther(r, name, variant)
		}
	}()
	simrt.SetMode(simrt.ModeOff)
	simrt.SimSeed, simrt.SimRand, simrt.SimMapSeed, simrt.SimIter, simrt.SimMath, simrt.SimStarve = 0, 0, 0, 0, 0, 0

	// C27 is checked on every run of every scenario; a run is non-trivial for it when it went
	// through a failure, deadline, corruption or missing-filter path (where the engine logs).
	if len(r.FaultCt) > 0 || r.Probes["life.stop-deadline-error"] > 0 || r.Probes["content.external-file"] > 0 ||
		r.Probes["corrupt.query-error"] > 0 || r.Probes["corrupt.merge-failed"] > 0 || r.Probes["corrupt.metadata-rejected"] > 0 {
		r.NonTriv["C27"] = true
	}
	if out := stdioNew(); out != "" {
		res.Stdio = out
		r.Violate("C27", "wrote-to-stdio", "the engine (Logger nil) wrote to stdout/stderr during this run: %q", out)
	}
	res.Digest = r.Digest()
	// Distinctness measure: the generated workload together with the scheduler's decisions.
	wh := sha256.New()
	for _, v := range w.Used() {
		wh.Write([]byte{byte(v), byte(v >> 8), byte(v >> 16), byte(v >> 24)})
	}
	res.SchedDigest = hex.EncodeToString(wh.Sum(nil))[:12] + ":" + r.SchedDigest()
	res.Steps = r.Step
	res.SimMs = r.SimMillis()
	res.Faults = r.FaultCt
	res.Probes = r.Probes
	res.NonTrivial = r.NonTriv
	res.Violations = r.Viol
	res.Budget = r.Budget
	res.Dirty = r.Dirty
	res.EnumCount = r.EnumCount
	if o.Enum && o.EnumPos < 0 {
		res.EnumKinds = r.EnumKinds
	}
	res.YieldParks = simrt.YieldParks
	res.GateParks = simrt.GateParks
	if len(r.Viol) > 0 || keepTrace || res.Panic != "" {
		res.Tapes = map[string][]uint32{"w": w.Used(), "s": s.Used(), "f": f.Used()}
		res.Trace = r.Trace()
		res.Sched = r.SchedLog()
		res.Samples = r.Samples
	} else if len(r.Samples) > 0 && seed%50 == 0 {
		res.Samples = r.Samples
	}
	if os.Getenv("SIM_KEEP_SCHED") != "" {
		res.Sched = r.SchedLog() // debugging aid: the decision list without the cost of the full trace
	}
	return res
}

var otherScenarios = map[string]func(r *Run, variant string){}

func runOther(r *Run, name, variant string) {
	fn := otherScenarios[name]
	if fn == nil {
		panic("unknown scenario " + name)
	}
	fn(r, variant)
}

func TestSim(t *testing.T) {
	scenario := os.Getenv("SIM_SCENARIO")
	if scenario == "" {
		t.Skip("SIM_SCENARIO not set")
	}
	runtime.GOMAXPROCS(1)
	if cap := os.Getenv("SIM_CAPTURE"); cap != "" {
		captureStdio(cap)
	}
	outPath := os.Getenv("SIM_OUT")
	out, err := os.OpenFile(outPath, os.O_CREATE|os.O_WRONLY|os.O_APPEND, 0o644)
	if err != nil {
		t.Fatal(err)
	}
	bw := bufio.NewWriter(out)
	emit := func(v any) {
		b, err := json.Marshal(v)
		if err != nil {
			b, _ = json.Marshal(map[string]string{"error": err.Error()})
		}
		bw.Write(b)
		bw.WriteByte('\n')
		bw.Flush()
	}
	exitCode := 0
	func() {
		defer func() {
			// The bubble panics when its root returns while goroutines are still blocked; the
			// results are already on disk by then.
			recover()
		}()
		synctest.Test(t, func(t *testing.T) {
			// Warm-up run, discarded (one-time lazy initialisation happens here).
			execute(424242, warmupScenario(scenario), ExecOpts{})
			warmLibrary()
			switch {
			case os.Getenv("SIM_REPLAY") != "":
				var rf ReplayFile
				data, err := os.ReadFile(os.Getenv("SIM_REPLAY"))
				if err != nil {
					emit(map[string]string{"error": err.Error()})
					exitCode = 2
					return
				}
				if err := json.Unmarshal(data, &rf); err != nil {
					emit(map[string]string{"error": err.Error()})
					exitCode = 2
					return
				}
				res := execute(rf.Seed, rf.Scenario, ExecOpts{Tapes: rf.Tapes, Keep: true, Enum: rf.Enum, EnumPos: rf.EnumPos, EnumVariant: rf.EnumVariant})
				emit(res)
			case os.Getenv("SIM_SHRINK") != "":
				exitCode = shrinkMain(os.Getenv("SIM_SHRINK"), emit)
			default:
				start, count := int64(0), int64(1)
				if sp := os.Getenv("SIM_SEEDS"); sp != "" {
					a, b, _ := strings.Cut(sp, ":")
					start, _ = strconv.ParseInt(a, 10, 64)
					count, _ = strconv.ParseInt(b, 10, 64)
				}
				stride := int64(1)
				if v := os.Getenv("SIM_STRIDE"); v != "" {
					stride, _ = strconv.ParseInt(v, 10, 64)
				}
				keep := os.Getenv("SIM_KEEP_TRACE") != ""
				if os.Getenv("SIM_ENUM") != "" {
					exitCode = enumSeeds(scenario, start, count, emit)
					return
				}
				for i := int64(0); i < count; i++ {
					res := execute(start+i*stride, scenario, ExecOpts{Keep: keep})
					emit(res)
					if res.Dirty || res.Panic != "" {
						// Leftover goroutines would perturb the next run: stop here, the driver
						// restarts a fresh process for the remaining seeds.
						exitCode = 3
						return
					}
				}
			}
		})
	}()
	bw.Flush()
	out.Close()
	os.Exit(exitCode)
}

// enumSeeds runs, for every seed, a fault-free reference execution followed by one execution per
// enumerated seam call position (and fault variant). SIM_ENUM_RESUME="pos:variant" skips the
// positions of the first seed that an earlier process already covered.
func enumSeeds(scenario string, start, count int64, emit func(any)) int {
	maxPos := 600
	if v := os.Getenv("SIM_ENUM_MAX"); v != "" {
		maxPos, _ = strconv.Atoi(v)
	}
	resumePos, resumeVar, resuming := -2, 0, false
	if v := os.Getenv("SIM_ENUM_RESUME"); v != "" {
		a, b, _ := strings.Cut(v, ":")
		resumePos, _ = strconv.Atoi(a)
		resumeVar, _ = strconv.Atoi(b)
		resuming = true
	}
	for i := int64(0); i < count; i++ {
		seed := start + i
		ref := execute(seed, scenario, ExecOpts{Enum: true, EnumPos: -1})
		n := ref.EnumCount
		ref.Last = n == 0 || ref.Dirty || ref.Panic != "" || ref.Budget
		skipping := resuming && i == 0
		if !skipping || ref.Last {
			emit(ref)
		}
		if ref.Dirty || ref.Panic != "" {
			return 3 // this seed is abandoned (Last is set); a fresh process continues with the next
		}
		if ref.Last {
			continue
		}
		step := 1
		if n > maxPos {
			step = (n + maxPos - 1) / maxPos
		}
		type pv struct{ pos, variant int }
		var plan []pv
		for pos := 0; pos < n; pos += step {
			plan = append(plan, pv{pos, 0})
			if pos < len(ref.EnumKinds) {
				switch ref.EnumKinds[pos] {
				case "ds.write", "ds.read", "ds.wclose", "os.write", "os.rename", "os.fsyncdir":
					plan = append(plan, pv{pos, 1})
				}
			}
		}
		for k, e := range plan {
			if skipping {
				if e.pos == resumePos && e.variant == resumeVar {
					skipping = false
				} else if resumePos == -1 {
					skipping = false
				} else {
					continue
				}
				if resumePos != -1 {
					continue
				}
			}
			res := execute(seed, scenario, ExecOpts{Enum: true, EnumPos: e.pos, EnumVariant: e.variant})
			res.Last = k == len(plan)-1
			emit(res)
			if res.Dirty || res.Panic != "" {
				return 3
			}
		}
	}
	return 0
}

func warmupScenario(s string) string {
	name, _, _ := strings.Cut(s, ":")
	switch name {
	case "life":
		return "life:general"
	}
	return s
}
