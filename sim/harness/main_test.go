package harness

import (
	"bufio"
	"encoding/json"
	"fmt"
	"os"
	"runtime"
	"runtime/debug"
	"strconv"
	"strings"
	"syscall"
	"testing"
	"testing/synctest"
	"time"

	"verifsim/simos"
	"verifsim/simrt"
)

// Result is one line of the worker's JSONL output.
type Result struct {
	Seed        int64             `json:"seed"`
	Scenario    string            `json:"scenario"`
	Digest      string            `json:"digest"`
	SchedDigest string            `json:"sched_digest"`
	Steps       int               `json:"steps"`
	SimMs       int64             `json:"sim_ms"`
	WallUs      int64             `json:"wall_us"`
	Faults      map[string]int    `json:"faults,omitempty"`
	Probes      map[string]int    `json:"probes,omitempty"`
	NonTrivial  map[string]bool   `json:"nontrivial,omitempty"`
	Violations  []Violation       `json:"violations,omitempty"`
	Budget      bool              `json:"budget,omitempty"`
	Dirty       bool              `json:"dirty,omitempty"`
	Stdio       string            `json:"stdio,omitempty"`
	Tapes       map[string][]uint32 `json:"tapes,omitempty"`
	Trace       []string          `json:"trace,omitempty"`
	Sched       []string          `json:"sched,omitempty"`
	Samples     []any             `json:"samples,omitempty"`
	YieldParks  uint64            `json:"yield_parks,omitempty"`
	GateParks   uint64            `json:"gate_parks,omitempty"`
	Panic       string            `json:"panic,omitempty"`
}

// ReplayFile is what a violation is written as and replayed from.
type ReplayFile struct {
	Property  string              `json:"property"`
	Kind      string              `json:"kind"`
	Message   string              `json:"message"`
	Seed      int64               `json:"seed"`
	Scenario  string              `json:"scenario"`
	Tapes     map[string][]uint32 `json:"tapes"`
	Original  map[string][]uint32 `json:"original_tapes,omitempty"`
	Minimised bool                `json:"minimised"`
	RepoTree  string              `json:"repo_tree,omitempty"`
	Workload  any                 `json:"workload,omitempty"`
	Trace     []string            `json:"trace,omitempty"`
	Sched     []string            `json:"schedule,omitempty"`
	Stats     map[string]any      `json:"stats,omitempty"`
}

const (
	streamW = 0x57
	streamS = 0x53
	streamF = 0x46
)

var stdioCapture *os.File
var stdioOffset int64

func captureStdio(path string) {
	f, err := os.OpenFile(path, os.O_CREATE|os.O_RDWR|os.O_TRUNC, 0o644)
	if err != nil {
		panic(err)
	}
	stdioCapture = f
	// Everything the engine or its dependencies write to fd 1 / fd 2 lands in the capture file.
	syscall.Dup2(int(f.Fd()), 1)
	syscall.Dup2(int(f.Fd()), 2)
}

func stdioNew() string {
	if stdioCapture == nil {
		return ""
	}
	st, err := stdioCapture.Stat()
	if err != nil || st.Size() <= stdioOffset {
		return ""
	}
	buf := make([]byte, min(st.Size()-stdioOffset, 2048))
	stdioCapture.ReadAt(buf, stdioOffset)
	stdioOffset = st.Size()
	return string(buf)
}

// execute runs one simulated execution inside the (already open) bubble.
func execute(seed int64, scenario string, tapes map[string][]uint32, keepTrace bool) (res *Result) {
	var w, s, f *Tape
	if tapes != nil {
		w, s, f = NewReplayTape(tapes["w"]), NewReplayTape(tapes["s"]), NewReplayTape(tapes["f"])
	} else {
		w, s, f = NewGenTape(uint64(seed), streamW), NewGenTape(uint64(seed), streamS), NewGenTape(uint64(seed), streamF)
	}
	r := NewRun(seed, scenario, w, s, f)
	r.Keep = keepTrace
	res = &Result{Seed: seed, Scenario: scenario}

	runtime.GC()
	debug.SetGCPercent(-1)
	defer debug.SetGCPercent(100)

	simrt.BeginRun()
	simrt.YieldEnabled = nil
	simos.Current = simos.NewFS()
	simrt.SimSeed = uint64(seed)*2654435761 + 0x9e3779b97f4a7c15 | 1
	simrt.SimRand = uint64(seed)*40503 + 0x632be59bd9b4e019 | 1
	simrt.SimNoPreempt = 1
	simrt.SetMode(simrt.ModeCoarse)
	r.Start = time.Now()
	stdioNew()
	wall := time.Now() // fake clock inside the bubble; wall time is measured by the driver
	_ = wall

	func() {
		defer func() {
			if p := recover(); p != nil {
				res.Panic = fmt.Sprintf("%v\n%s", p, debug.Stack())
				r.Dirty = true
			}
		}()
		name, variant, _ := strings.Cut(scenario, ":")
		switch name {
		case "life":
			RunLife(r, variant)
		default:
			runOther(r, name, variant)
		}
	}()
	simrt.SetMode(simrt.ModeOff)
	simrt.SimSeed, simrt.SimRand = 0, 0

	if out := stdioNew(); out != "" {
		res.Stdio = out
		r.Violate("C27", "wrote-to-stdio", "the engine (Logger nil) wrote to stdout/stderr during this run: %q", out)
	}
	res.Digest = r.Digest()
	res.SchedDigest = r.SchedDigest()
	res.Steps = r.Step
	res.SimMs = r.SimMillis()
	res.Faults = r.FaultCt
	res.Probes = r.Probes
	res.NonTrivial = r.NonTriv
	res.Violations = r.Viol
	res.Budget = r.Budget
	res.Dirty = r.Dirty
	res.YieldParks = simrt.YieldParks
	res.GateParks = simrt.GateParks
	if len(r.Viol) > 0 || keepTrace || res.Panic != "" {
		res.Tapes = map[string][]uint32{"w": w.Used(), "s": s.Used(), "f": f.Used()}
		res.Trace = r.Trace()
		res.Sched = r.SchedLog()
		res.Samples = r.Samples
	} else if len(r.Samples) > 0 && seed%50 == 0 {
		res.Samples = r.Samples
	}
	return res
}

var otherScenarios = map[string]func(r *Run, variant string){}

func runOther(r *Run, name, variant string) {
	fn := otherScenarios[name]
	if fn == nil {
		panic("unknown scenario " + name)
	}
	fn(r, variant)
}

func TestSim(t *testing.T) {
	scenario := os.Getenv("SIM_SCENARIO")
	if scenario == "" {
		t.Skip("SIM_SCENARIO not set")
	}
	runtime.GOMAXPROCS(1)
	if cap := os.Getenv("SIM_CAPTURE"); cap != "" {
		captureStdio(cap)
	}
	outPath := os.Getenv("SIM_OUT")
	out, err := os.OpenFile(outPath, os.O_CREATE|os.O_WRONLY|os.O_APPEND, 0o644)
	if err != nil {
		t.Fatal(err)
	}
	bw := bufio.NewWriter(out)
	emit := func(v any) {
		b, err := json.Marshal(v)
		if err != nil {
			b, _ = json.Marshal(map[string]string{"error": err.Error()})
		}
		bw.Write(b)
		bw.WriteByte('\n')
		bw.Flush()
	}
	exitCode := 0
	func() {
		defer func() {
			// The bubble panics when its root returns while goroutines are still blocked; the
			// results are already on disk by then.
			recover()
		}()
		synctest.Test(t, func(t *testing.T) {
			// Warm-up run, discarded (one-time lazy initialisation happens here).
			execute(424242, warmupScenario(scenario), nil, false)
			switch {
			case os.Getenv("SIM_REPLAY") != "":
				var rf ReplayFile
				data, err := os.ReadFile(os.Getenv("SIM_REPLAY"))
				if err != nil {
					emit(map[string]string{"error": err.Error()})
					exitCode = 2
					return
				}
				if err := json.Unmarshal(data, &rf); err != nil {
					emit(map[string]string{"error": err.Error()})
					exitCode = 2
					return
				}
				res := execute(rf.Seed, rf.Scenario, rf.Tapes, true)
				emit(res)
			case os.Getenv("SIM_SHRINK") != "":
				exitCode = shrinkMain(os.Getenv("SIM_SHRINK"), emit)
			default:
				start, count := int64(0), int64(1)
				if sp := os.Getenv("SIM_SEEDS"); sp != "" {
					a, b, _ := strings.Cut(sp, ":")
					start, _ = strconv.ParseInt(a, 10, 64)
					count, _ = strconv.ParseInt(b, 10, 64)
				}
				stride := int64(1)
				if v := os.Getenv("SIM_STRIDE"); v != "" {
					stride, _ = strconv.ParseInt(v, 10, 64)
				}
				keep := os.Getenv("SIM_KEEP_TRACE") != ""
				for i := int64(0); i < count; i++ {
					res := execute(start+i*stride, scenario, nil, keep)
					emit(res)
					if res.Dirty || res.Panic != "" {
						// Leftover goroutines would perturb the next run: stop here, the driver
						// restarts a fresh process for the remaining seeds.
						exitCode = 3
						return
					}
				}
			}
		})
	}()
	bw.Flush()
	out.Close()
	os.Exit(exitCode)
}

func warmupScenario(s string) string {
	name, _, _ := strings.Cut(s, ":")
	switch name {
	case "life":
		return "life:general"
	}
	return s
}
