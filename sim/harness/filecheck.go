package harness

import (
	"bytes"
	"encoding/binary"
	"encoding/json"
	"fmt"
	"hash/crc32"
	"sort"

	bs "github.com/danthegoodman1/bloomsearch"
)

// Per-file truth checks shared by S-content and S-merge: C17 (files describe themselves
// truthfully) and C18 (indexes cover their data).

// RowInfo is what the ledger knows about one ingested row.
type RowInfo struct {
	ID      string
	Row     map[string]any // the Go value handed to IngestRows
	Raw     []byte         // json.Marshal(Row)
	Spec    *SpecRow
	Pid     string         // partition function's value at ingest
	Indexed map[string]any // minmax key -> Go value, for keys configured at ingest whose value is numeric non-NaN
	Phase   int
}

var crcTable = crc32.MakeTable(crc32.Castagnoli)

type fileTruthOpts struct {
	Rows       map[string]*RowInfo
	FPRates    map[float64]bool // every false-positive rate some engine of this run was configured with
	WriterRate float64          // rate of the engine that wrote the file (0 = unknown)
	External   bool             // written by the external writer (filters may be absent)
}

// CheckFileTruth applies C17 and C18 to one complete file image.
func CheckFileTruth(r *Run, ptr string, data []byte, o fileTruthOpts) {
	fv := ViewFromBytes(ptr, data, true)
	if fv.Err != nil {
		r.Violate("C17", "file-does-not-parse", "file %s (%d bytes) written by the engine does not parse: %v", ptr, len(data), fv.Err)
		return
	}
	md := fv.Meta
	// ---- layout ----
	// "Block order" is the order of FileMetadata.DataBlocks: an engine-written file lists its
	// blocks in the order their row data lies in the file, so the list is walked as it stands.
	// (An external writer's file is only required to be laid out consistently.)
	blocks := append([]BlockView(nil), fv.Blocks...)
	if o.External {
		sort.SliceStable(blocks, func(i, j int) bool { return blocks[i].Meta.RowDataOffset < blocks[j].Meta.RowDataOffset })
	}
	off := 0
	for _, b := range blocks {
		if b.Meta.RowDataOffset != off {
			r.Violate("C17", "row-data-not-contiguous", "file %s: block at offset %d does not start where the previous block ended (%d)", ptr, b.Meta.RowDataOffset, off)
		}
		off = b.Meta.RowDataOffset + b.Meta.RowDataSize
	}
	if off != md.BlockFilterRegionOffset {
		r.Violate("C17", "region-not-after-row-data", "file %s: row data ends at %d but the block filter region starts at %d", ptr, off, md.BlockFilterRegionOffset)
	}
	foff := md.BlockFilterRegionOffset
	for _, b := range blocks {
		if b.Meta.BloomFilterSize == 0 {
			continue
		}
		if b.Meta.BloomFilterOffset != foff {
			r.Violate("C17", "filter-sections-not-in-block-order", "file %s: filter section of block@%d is at %d, expected %d (sections contiguous in block order)", ptr, b.Meta.RowDataOffset, b.Meta.BloomFilterOffset, foff)
		}
		foff = b.Meta.BloomFilterOffset + b.Meta.BloomFilterSize
	}
	if foff != md.BlockFilterRegionOffset+md.BlockFilterRegionSize {
		r.Violate("C17", "region-size-mismatch", "file %s: filter sections end at %d but the region is declared [%d,%d)", ptr, foff, md.BlockFilterRegionOffset, md.BlockFilterRegionOffset+md.BlockFilterRegionSize)
	}
	// Footer framing per FILE_FORMAT.md: [file filter section][JSON][crc 4][len 4][version 4][magic 8].
	if len(data) >= 20 {
		tail := data[len(data)-20:]
		mlen := int(binary.LittleEndian.Uint32(tail[4:8]))
		moff := len(data) - 20 - mlen
		if moff >= 0 {
			var j struct{ FileFilterSectionSize int }
			if err := json.Unmarshal(data[moff:moff+mlen], &j); err == nil {
				if md.BlockFilterRegionOffset+md.BlockFilterRegionSize+j.FileFilterSectionSize != moff {
					r.Violate("C17", "footer-does-not-tile", "file %s: region end %d + file filter section %d != metadata offset %d", ptr,
						md.BlockFilterRegionOffset+md.BlockFilterRegionSize, j.FileFilterSectionSize, moff)
				}
			}
		}
	}

	// ---- per block ----
	fileFields, fileTokens, fileFT := map[string]bool{}, map[string]bool{}, map[string]bool{}
	knownAll := true
	for _, b := range fv.Blocks {
		where := fmt.Sprintf("%s@%d", ptr, b.Meta.RowDataOffset)
		if b.Err != nil {
			r.Violate("C17", "block-unreadable", "block %s of an engine-written file cannot be read back: %v", where, b.Err)
			continue
		}
		if len(b.Rows) != b.Meta.Rows {
			r.Violate("C17", "row-count-mismatch", "block %s declares %d rows but holds %d", where, b.Meta.Rows, len(b.Rows))
		}
		usz := 0
		for _, row := range b.Rows {
			usz += 4 + len(row)
		}
		if usz != b.Meta.UncompressedSize {
			r.Violate("C17", "uncompressed-size-mismatch", "block %s declares UncompressedSize %d but its rows take %d", where, b.Meta.UncompressedSize, usz)
		}
		if end := b.Meta.RowDataOffset + b.Meta.RowDataSize; b.Meta.RowDataOffset >= 0 && end <= len(data) && end >= b.Meta.RowDataOffset {
			stored := data[b.Meta.RowDataOffset:end]
			if !o.External {
				if !b.Meta.HasRowDataHash {
					r.Violate("C17", "hash-missing", "block %s carries no row data hash", where)
				} else if crc32.Checksum(stored, crcTable) != b.Meta.RowDataHash {
					r.Violate("C17", "hash-mismatch", "block %s: CRC32C of the stored row data is %x, metadata says %x", where, crc32.Checksum(stored, crcTable), b.Meta.RowDataHash)
				}
			}
		}
		if !o.External && len(o.FPRates) > 0 && !o.FPRates[b.Meta.BloomFalsePositiveRate] {
			r.Violate("C17", "fp-rate-mismatch", "block %s records BloomFalsePositiveRate %v, which no engine of this run was configured with", where, b.Meta.BloomFalsePositiveRate)
		}
		bFields, bTokens, bFT := map[string]bool{}, map[string]bool{}, map[string]bool{}
		expKeys := map[string]bool{}
		known := true
		for i, row := range b.Rows {
			ri := o.Rows[b.IDs[i]]
			if ri == nil {
				known = false
				knownAll = false
				r.Violate("C17", "unknown-row-in-file", "block %s holds a row with _id %q that was never ingested", where, b.IDs[i])
				continue
			}
			if !bytes.Equal(row, ri.Raw) {
				r.Violate("C17", "row-bytes-differ", "block %s: row %q reads back as %q, ingested as %q", where, ri.ID, trunc(row), trunc(ri.Raw))
			}
			for f := range ri.Spec.Fields {
				bFields[f] = true
			}
			for t := range ri.Spec.Tokens {
				bTokens[t] = true
			}
			for ft := range ri.Spec.JoinedFT {
				bFT[ft] = true
			}
			// ---- C18: partition and minmax ----
			if b.Meta.PartitionID != ri.Pid {
				r.Violate("C18", "partition-id-mismatch", "block %s has partition %q but row %q belongs to partition %q", where, b.Meta.PartitionID, ri.ID, ri.Pid)
			}
			for k, v := range ri.Indexed {
				expKeys[k] = true
				lo, hi, ok := expectedRange(v)
				if !ok {
					continue
				}
				mm, has := b.Meta.MinMaxIndexes[k]
				if !has {
					r.Violate("C18", "minmax-key-missing", "block %s has no minmax entry for %q although row %q provides %v (%T)", where, k, ri.ID, v, v)
					continue
				}
				if mm.Min > lo || mm.Max < hi {
					r.Violate("C18", "minmax-range-does-not-cover", "block %s: range [%d,%d] of %q does not cover row %q's value %v (%T) = [%d,%d]", where, mm.Min, mm.Max, k, ri.ID, v, v, lo, hi)
				}
			}
		}
		if known {
			for k := range b.Meta.MinMaxIndexes {
				if !expKeys[k] {
					r.Violate("C18", "minmax-key-unprovided", "block %s lists minmax key %q that none of its rows provided", where, k)
				}
			}
			if !o.External {
				c := b.Meta.BloomEntryCounts
				if c.Fields != len(bFields) || c.Tokens != len(bTokens) || c.FieldTokens != len(bFT) {
					r.Violate("C17", "entry-counts-mismatch", "block %s records entry counts %+v but its rows hold %d fields, %d tokens, %d field:token pairs", where, c, len(bFields), len(bTokens), len(bFT))
				}
			}
			// ---- C18: block filters cover the block's entries ----
			if b.Filters != nil {
				checkCover(r, where, "block", b.Filters, bFields, bTokens, bFT, o.External)
			}
		}
		for k := range bFields {
			fileFields[k] = true
		}
		for k := range bTokens {
			fileTokens[k] = true
		}
		for k := range bFT {
			fileFT[k] = true
		}
	}
	if knownAll {
		checkCover(r, ptr, "file", &md.BloomFilters, fileFields, fileTokens, fileFT, o.External)
		if !o.External {
			c := md.BloomEntryCounts
			if c.Fields != len(fileFields) || c.Tokens != len(fileTokens) || c.FieldTokens != len(fileFT) {
				r.Violate("C17", "file-entry-counts-mismatch", "file %s records entry counts %+v but its rows hold %d fields, %d tokens, %d field:token pairs", ptr, c, len(fileFields), len(fileTokens), len(fileFT))
			}
			if o.WriterRate != 0 && md.BloomFalsePositiveRate != o.WriterRate {
				r.Violate("C17", "file-fp-rate-mismatch", "file %s records BloomFalsePositiveRate %v, its writer was configured with %v", ptr, md.BloomFalsePositiveRate, o.WriterRate)
			}
		}
	}
}

func checkCover(r *Run, where, level string, f *bs.BloomFilters, fields, tokens, fts map[string]bool, external bool) {
	if !external {
		if f.FieldBloomFilter == nil || f.TokenBloomFilter == nil || f.FieldTokenBloomFilter == nil {
			r.Violate("C18", "filter-absent", "%s %s written by the engine lacks a bloom filter", level, where)
		}
	}
	if f.FieldBloomFilter != nil {
		for _, e := range sortedKeys(fields) {
			if !f.FieldBloomFilter.TestString(e) {
				r.Violate("C18", level+"-field-filter-misses-entry", "%s %s: field filter does not contain path %q of one of its rows", level, where, e)
				break
			}
		}
	}
	if f.TokenBloomFilter != nil {
		for _, e := range sortedKeys(tokens) {
			if !f.TokenBloomFilter.TestString(e) {
				r.Violate("C18", level+"-token-filter-misses-entry", "%s %s: token filter does not contain token %q of one of its rows", level, where, e)
				break
			}
		}
	}
	if f.FieldTokenBloomFilter != nil {
		for _, e := range sortedKeys(fts) {
			if !f.FieldTokenBloomFilter.TestString(e) {
				r.Violate("C18", level+"-fieldtoken-filter-misses-entry", "%s %s: field:token filter does not contain %q of one of its rows", level, where, e)
				break
			}
		}
	}
}

func trunc(b []byte) string {
	if len(b) > 160 {
		return string(b[:160]) + "…"
	}
	return string(b)
}
