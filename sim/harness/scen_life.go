package harness

import (
	"bytes"
	"context"
	"encoding/json"
	"errors"
	"fmt"
	"io"
	"log/slog"
	"sort"
	"strings"
	"sync"
	"time"

	bs "github.com/danthegoodman1/bloomsearch"
	"verifsim/simos"
	"verifsim/simrt"
)

// S-life: the write-path lifecycle scenario (DESIGN.md §5). Serves C05 C06 C07 C08 C09 C10 C27.

type lifeRow struct {
	ID  string `json:"id"`
	P   string `json:"p,omitempty"`
	N   int    `json:"n"`
	Bad bool   `json:"bad,omitempty"`
	Pad int    `json:"pad,omitempty"`
}

type lifeOp struct {
	Kind      string    `json:"kind"` // ingest flush start stop query merge sleep
	Rows      []lifeRow `json:"rows,omitempty"`
	Done      int       `json:"done,omitempty"` // 0 nil, 1 buffered, 2 unbuffered+prompt receiver, 3 unbuffered+late receiver, 4 unbuffered abandoned
	Ctx       int       `json:"ctx,omitempty"`  // 0 background, 1 context.WithTimeout, 2 SimCtx with timeout
	TimeoutMs int       `json:"timeout_ms,omitempty"`
	SleepMs   int       `json:"sleep_ms,omitempty"`
}

type lifeWorkload struct {
	Variant   string     `json:"variant"`
	Cfg       lifeCfg    `json:"cfg"`
	StartMode int        `json:"start_mode"` // 0 at the beginning, 1 by an op, 2 never
	Meta      int        `json:"meta"`       // 0 SimMeta, 1 real MemoryMetaStore behind gates
	Clients   [][]lifeOp `json:"clients"`
	NoAbort   bool       `json:"no_abort,omitempty"`
	StallKind string     `json:"stall_kind,omitempty"`
	StallNth  int        `json:"stall_nth,omitempty"`
}

type lifeCfg struct {
	IngestBufferSize int    `json:"ingest_buffer"`
	MaxBufferedRows  int    `json:"max_buf_rows"`
	MaxBufferedBytes int    `json:"max_buf_bytes"`
	MaxBufferedMs    int    `json:"max_buf_ms"`
	MaxRowGroupRows  int    `json:"max_rg_rows"`
	MaxRowGroupBytes int    `json:"max_rg_bytes"`
	Compression      string `json:"compression"`
	Partitioned      bool   `json:"partitioned"`
}

type answer struct {
	Step int
	At   time.Time
	Err  error
}

type lifeBatch struct {
	ID       string
	Client   int
	Op       lifeOp
	IsFlush  bool
	RowIDs   []string
	NRows    int
	Bytes    int            // Σ len(json.Marshal(row)) — a lower bound on the engine's own measure
	PartRows map[string]int // rows per partition
	PartByte map[string]int
	HasBad   bool
	Ch       chan error
	quit     chan struct{}

	InvokeStep int
	InvokeAt   time.Time
	Returned   bool
	RetStep    int
	RetAt      time.Time
	RetErr     error
	Answers    []answer
}

func (b *lifeBatch) accepted() bool { return b.Returned && b.RetErr == nil && !b.IsFlush }
func (b *lifeBatch) receivable() bool {
	return b.Op.Done == 1 || b.Op.Done == 2 || b.Op.Done == 3
}

type stopRec struct {
	Client     int
	InvokeStep int
	InvokeAt   time.Time
	Deadline   time.Time
	HasDL      bool
	Returned   bool
	RetStep    int
	RetAt      time.Time
	Err        error
	CtxKind    int
}

type queryRec struct {
	Client     int
	InvokeStep int
	RetStep    int
	IDs        []string
	Err        error
	Done       bool
}

var errBadRowValue = make(chan int) // json.Marshal rejects channel values

type lockedWriter struct {
	mu sync.Mutex
	w  io.Writer
}

func (l *lockedWriter) Write(p []byte) (int, error) {
	l.mu.Lock()
	defer l.mu.Unlock()
	return l.w.Write(p)
}

func genLifeWorkload(w *Tape, variant string) *lifeWorkload {
	wl := &lifeWorkload{Variant: variant}
	c := &wl.Cfg
	comp := []string{"none", "snappy", "zstd"}
	c.Compression = comp[w.Draw(3)]
	c.Partitioned = w.Bool()
	switch variant {
	case "backpressure":
		c.IngestBufferSize = w.Range(1, 8)
		c.MaxBufferedRows = w.Range(1, 6)
		c.MaxBufferedBytes = 1 << 20
		c.MaxBufferedMs = []int{200, 500, 1000}[w.Draw(3)]
		c.MaxRowGroupRows = 1000
		c.MaxRowGroupBytes = 1 << 20
		wl.StartMode = 0
		wl.StallKind = []string{"ds.create", "ds.write", "ds.wclose", "ms.update"}[w.Draw(4)]
		wl.StallNth = w.Range(1, 3)
		n := w.Range(1, 6)
		for ci := 0; ci < n; ci++ {
			var ops []lifeOp
			k := w.Range(10, 40)
			for i := 0; i < k; i++ {
				ops = append(ops, lifeOp{Kind: "ingest", Rows: []lifeRow{{ID: fmt.Sprintf("c%d-%d-0", ci, i), P: "p" + fmt.Sprint(w.Draw(3)), N: w.Draw(100)}},
					Done: 1, Ctx: 2, TimeoutMs: []int{100, 300, 1000}[w.Draw(3)]})
			}
			wl.Clients = append(wl.Clients, ops)
		}
		return wl
	case "timed":
		c.IngestBufferSize = w.Range(1, 6)
		c.MaxBufferedRows = w.Range(1, 8)
		c.MaxBufferedBytes = []int{40, 120, 400, 1 << 20}[w.Draw(4)]
		c.MaxBufferedMs = []int{200, 500, 1000, 5000}[w.Draw(4)]
		c.MaxRowGroupRows = w.Range(1, 6)
		c.MaxRowGroupBytes = []int{40, 150, 600, 1 << 20}[w.Draw(4)]
		wl.StartMode = 0
		wl.Meta = w.Draw(2)
		n := w.Range(1, 3)
		for ci := 0; ci < n; ci++ {
			var ops []lifeOp
			k := w.Range(2, 7)
			for i := 0; i < k; i++ {
				if w.Draw(5) == 0 {
					ops = append(ops, lifeOp{Kind: "sleep", SleepMs: []int{10, 120, 700, 2500}[w.Draw(4)]})
					continue
				}
				op := lifeOp{Kind: "ingest", Done: 1 + w.Draw(2)}
				nr := w.Range(0, 4)
				for j := 0; j < nr; j++ {
					row := lifeRow{ID: fmt.Sprintf("c%d-%d-%d", ci, i, j), P: "p" + fmt.Sprint(w.Draw(4)), N: w.Draw(1000)}
					if w.Draw(6) == 0 {
						row.Pad = w.Range(20, 300)
					}
					// A batch rejected at validation must leave the buffered state (including
					// the age of what is already buffered) exactly as it was.
					if w.Draw(10) == 0 {
						row.Bad = true
					}
					op.Rows = append(op.Rows, row)
				}
				ops = append(ops, op)
			}
			wl.Clients = append(wl.Clients, ops)
		}
		return wl
	}
	// general
	c.IngestBufferSize = w.Range(1, 3)
	c.MaxBufferedRows = w.Range(1, 6)
	c.MaxBufferedBytes = []int{64, 256, 2048, 1 << 20}[w.Draw(4)]
	c.MaxBufferedMs = []int{200, 500, 1000, 5000}[w.Draw(4)]
	c.MaxRowGroupRows = w.Range(1, 8)
	c.MaxRowGroupBytes = []int{64, 512, 4096, 1 << 20}[w.Draw(4)]
	wl.StartMode = []int{0, 0, 0, 0, 0, 0, 1, 1, 1, 2}[w.Draw(10)]
	wl.Meta = w.Draw(2)
	wl.NoAbort = w.Draw(5) == 0
	n := w.Range(1, 4)
	stops := 0
	for ci := 0; ci < n; ci++ {
		var ops []lifeOp
		k := w.Range(3, 8)
		for i := 0; i < k; i++ {
			var op lifeOp
			switch x := w.Draw(20); {
			case x < 11:
				op = lifeOp{Kind: "ingest", Done: []int{1, 1, 1, 2, 2, 3, 0, 4}[w.Draw(8)], Ctx: []int{0, 0, 0, 1, 2}[w.Draw(5)]}
				op.TimeoutMs = []int{50, 300, 2000}[w.Draw(3)]
				nr := []int{1, 1, 2, 3, 0}[w.Draw(5)]
				for j := 0; j < nr; j++ {
					row := lifeRow{ID: fmt.Sprintf("c%d-%d-%d", ci, i, j), P: "p" + fmt.Sprint(w.Draw(3)), N: w.Draw(1000)}
					if w.Draw(12) == 0 {
						row.Bad = true
					}
					if w.Draw(8) == 0 {
						row.Pad = w.Range(20, 200)
					}
					op.Rows = append(op.Rows, row)
				}
			case x < 14:
				op = lifeOp{Kind: "flush", Ctx: []int{0, 0, 1, 2}[w.Draw(4)], TimeoutMs: []int{100, 1000, 5000}[w.Draw(3)]}
			case x < 15:
				op = lifeOp{Kind: "start"}
			case x < 17:
				if stops >= 2 {
					op = lifeOp{Kind: "sleep", SleepMs: 50}
					break
				}
				stops++
				op = lifeOp{Kind: "stop", Ctx: []int{0, 1, 1, 2, 2, 3}[w.Draw(6)], TimeoutMs: []int{100, 500, 2000, 10000}[w.Draw(4)]}
			case x < 18:
				op = lifeOp{Kind: "query"}
			case x < 19:
				op = lifeOp{Kind: "merge"}
			default:
				op = lifeOp{Kind: "sleep", SleepMs: []int{1, 100, 600, 3000}[w.Draw(4)]}
			}
			ops = append(ops, op)
		}
		wl.Clients = append(wl.Clients, ops)
	}
	if wl.StartMode == 1 {
		// Make sure some client issues a start.
		ci := w.Draw(len(wl.Clients))
		at := w.Draw(len(wl.Clients[ci]) + 1)
		ops := append([]lifeOp{}, wl.Clients[ci][:at]...)
		ops = append(ops, lifeOp{Kind: "start"})
		wl.Clients[ci] = append(ops, wl.Clients[ci][at:]...)
	}
	return wl
}

type lifeState struct {
	r       *Run
	wl      *lifeWorkload
	eng     *bs.BloomSearchEngine
	cfg     bs.BloomSearchEngineConfig
	disk    *SimDisk
	meta    bs.MetaStore
	simMeta *SimMeta
	gmeta   *GatedMeta

	batches  []*lifeBatch
	stops    []*stopRec
	queries  []*queryRec
	started  bool
	startStp int
	finished int
	quitAll  chan struct{}
	cancels  []context.CancelFunc
	simctxs  []*SimCtx

	ds      bs.DataStore
	fsStore *bs.FileSystemDataStore

	maxOutstanding int
	idCommit       map[string]int // _id -> step at which the Update referencing its file returned
	metaDone       map[int]bool
}

func partitionByP(row map[string]any) string {
	if s, ok := row["p"].(string); ok {
		return s
	}
	return ""
}

func (st *lifeState) buildRows(op lifeOp) ([]map[string]any, *lifeBatch) {
	b := &lifeBatch{Op: op, PartRows: map[string]int{}, PartByte: map[string]int{}}
	var rows []map[string]any
	for _, lr := range op.Rows {
		row := map[string]any{"_id": lr.ID, "p": lr.P, "n": lr.N, "msg": "hello world " + lr.ID}
		if lr.Pad > 0 {
			row["pad"] = strings.Repeat("x", lr.Pad)
		}
		if lr.Bad {
			row["bad"] = errBadRowValue
			b.HasBad = true
		} else {
			bts, _ := json.Marshal(row)
			b.Bytes += len(bts)
			pid := ""
			if st.wl.Cfg.Partitioned {
				pid = lr.P
			}
			b.PartRows[pid]++
			b.PartByte[pid] += len(bts)
		}
		b.RowIDs = append(b.RowIDs, lr.ID)
		rows = append(rows, row)
	}
	b.NRows = len(rows)
	return rows, b
}

func (st *lifeState) opCtx(name string, kind, timeoutMs int) context.Context {
	switch kind {
	case 1:
		ctx, cancel := context.WithTimeout(context.Background(), time.Duration(timeoutMs)*time.Millisecond)
		st.r.mu.Lock()
		st.cancels = append(st.cancels, cancel)
		st.r.mu.Unlock()
		return ctx
	case 2, 3:
		d := time.Duration(timeoutMs) * time.Millisecond
		c := st.r.NewSimCtx(name, d)
		st.r.mu.Lock()
		st.simctxs = append(st.simctxs, c)
		st.r.mu.Unlock()
		return c
	}
	// Behaves like context.Background() during the run; cancellable so teardown can unblock it.
	ctx, cancel := context.WithCancel(context.Background())
	st.r.mu.Lock()
	st.cancels = append(st.cancels, cancel)
	st.r.mu.Unlock()
	return ctx
}

func (st *lifeState) client(ci int, ops []lifeOp) {
	r := st.r
	for oi, op := range ops {
		simrt.Gate("op", fmt.Sprintf("c%d.%d %s", ci, oi, op.Kind), nil)
		switch op.Kind {
		case "ingest":
			rows, b := st.buildRows(op)
			b.ID = fmt.Sprintf("b-c%d-%d", ci, oi)
			b.Client = ci
			switch op.Done {
			case 1:
				b.Ch = make(chan error, 4)
			case 2, 3, 4:
				b.Ch = make(chan error)
			}
			b.quit = st.quitAll
			ctx := st.opCtx(b.ID, op.Ctx, op.TimeoutMs)
			r.mu.Lock()
			st.batches = append(st.batches, b)
			b.InvokeStep = r.Step
			b.InvokeAt = time.Now()
			r.mu.Unlock()
			if op.Done == 2 || op.Done == 3 {
				st.spawnReceiver(b, op.Done == 3)
			}
			r.Logf("IngestRows %s rows=%v done=%d ctx=%d invoke", b.ID, b.RowIDs, op.Done, op.Ctx)
			err := st.eng.IngestRows(ctx, rows, b.Ch)
			r.mu.Lock()
			b.Returned, b.RetStep, b.RetAt, b.RetErr = true, r.Step, time.Now(), err
			r.mu.Unlock()
			r.Logf("IngestRows %s -> %v", b.ID, err)
		case "flush":
			b := &lifeBatch{ID: fmt.Sprintf("fl-c%d-%d", ci, oi), Client: ci, Op: op, IsFlush: true}
			ctx := st.opCtx(b.ID, op.Ctx, op.TimeoutMs)
			r.mu.Lock()
			st.batches = append(st.batches, b)
			b.InvokeStep = r.Step
			b.InvokeAt = time.Now()
			r.mu.Unlock()
			r.Logf("Flush %s invoke ctx=%d", b.ID, op.Ctx)
			err := st.eng.Flush(ctx)
			r.mu.Lock()
			b.Returned, b.RetStep, b.RetAt, b.RetErr = true, r.Step, time.Now(), err
			r.mu.Unlock()
			r.Logf("Flush %s -> %v", b.ID, err)
		case "start":
			r.Logf("Start")
			st.eng.Start()
			r.mu.Lock()
			if !st.started {
				st.started = true
				st.startStp = r.Step
			}
			r.mu.Unlock()
		case "stop":
			sr := &stopRec{Client: ci, CtxKind: op.Ctx}
			name := fmt.Sprintf("stop-c%d-%d", ci, oi)
			var ctx context.Context = context.Background()
			switch op.Ctx {
			case 1:
				ctx = st.opCtx(name, 1, op.TimeoutMs)
			case 2:
				ctx = st.opCtx(name, 2, op.TimeoutMs)
			case 3:
				// Cancellable SimCtx without a deadline: the controller cancels it at some step.
				ctx = st.opCtx(name, 3, 0)
			}
			if dl, ok := ctx.Deadline(); ok {
				sr.Deadline, sr.HasDL = dl, true
			}
			r.mu.Lock()
			st.stops = append(st.stops, sr)
			sr.InvokeStep, sr.InvokeAt = r.Step, time.Now()
			r.mu.Unlock()
			r.Logf("Stop invoke ctx=%d timeout=%dms", op.Ctx, op.TimeoutMs)
			err := st.eng.Stop(ctx)
			r.mu.Lock()
			sr.Returned, sr.RetStep, sr.RetAt, sr.Err = true, r.Step, time.Now(), err
			r.mu.Unlock()
			r.Logf("Stop -> %v", err)
		case "query":
			qr := &queryRec{Client: ci}
			r.mu.Lock()
			st.queries = append(st.queries, qr)
			qr.InvokeStep = r.Step
			r.mu.Unlock()
			tag := fmt.Sprintf("q-c%d-%d", ci, oi)
			rows, err, _ := QueryAll(st.eng, WithTag(context.Background(), tag), nil)
			r.mu.Lock()
			for _, row := range rows {
				qr.IDs = append(qr.IDs, idOfRow(row))
			}
			qr.Err, qr.RetStep, qr.Done = err, r.Step, true
			r.mu.Unlock()
			r.Logf("Query %s -> %d rows err=%v", tag, len(rows), err)
		case "merge":
			_, err := st.eng.Merge(WithTag(context.Background(), fmt.Sprintf("merge-c%d-%d", ci, oi)))
			r.Logf("Merge -> %v", err)
		case "sleep":
			time.Sleep(time.Duration(op.SleepMs) * time.Millisecond)
		}
	}
	r.mu.Lock()
	st.finished++
	r.mu.Unlock()
}

func (st *lifeState) spawnReceiver(b *lifeBatch, late bool) {
	r := st.r
	simrt.GoNamed("recv-"+b.ID, func() {
		if late {
			select {
			case <-time.After(700 * time.Millisecond):
			case <-b.quit:
				return
			}
		}
		for {
			simrt.Gate("recv", b.ID, nil)
			select {
			case v := <-b.Ch:
				r.mu.Lock()
				b.Answers = append(b.Answers, answer{r.Step, time.Now(), v})
				r.mu.Unlock()
				r.Logf("recv %s <- %v", b.ID, v)
			case <-b.quit:
				return
			}
		}
	})
}

// poll drains buffered done channels (controller, at quiescence).
func (st *lifeState) poll() {
	r := st.r
	r.mu.Lock()
	bs := append([]*lifeBatch(nil), st.batches...)
	r.mu.Unlock()
	for _, b := range bs {
		if b.Op.Done != 1 || b.Ch == nil {
			continue
		}
		for len(b.Ch) > 0 {
			v := <-b.Ch
			r.mu.Lock()
			b.Answers = append(b.Answers, answer{r.Step, time.Now(), v})
			r.mu.Unlock()
			r.Logf("answer %s <- %v", b.ID, v)
		}
	}
}

func (st *lifeState) snapshot() ([]*lifeBatch, []*stopRec, []*queryRec) {
	st.r.mu.Lock()
	defer st.r.mu.Unlock()
	return append([]*lifeBatch(nil), st.batches...), append([]*stopRec(nil), st.stops...), append([]*queryRec(nil), st.queries...)
}

// outstanding counts accepted, unanswered, receivable ingest batches.
func (st *lifeState) outstanding() (n int, list []*lifeBatch) {
	bsnap, _, _ := st.snapshot()
	for _, b := range bsnap {
		if b.accepted() && b.receivable() && len(b.Answers) == 0 {
			n++
			list = append(list, b)
		}
	}
	return
}

func (st *lifeState) flushesInFlight() int {
	bsnap, _, _ := st.snapshot()
	n := 0
	for _, b := range bsnap {
		if b.IsFlush && !b.Returned {
			n++
		}
	}
	return n
}

func (st *lifeState) stopIssued() bool {
	_, stops, _ := st.snapshot()
	return len(stops) > 0
}

// onStep runs at every quiescent point.
func (st *lifeState) onStep() {
	r := st.r
	st.poll()
	st.trackCommits()
	// C09: bounded backpressure.
	n, _ := st.outstanding()
	if n > st.maxOutstanding {
		st.maxOutstanding = n
	}
	c := st.wl.Cfg
	bound := c.IngestBufferSize + 3*c.MaxBufferedRows + 3 + st.flushesInFlight()
	if n > bound {
		r.Violate("C09", "unbounded-acceptance", "%d accepted batches are unanswered; bound for IngestBufferSize=%d MaxBufferedRows=%d is %d",
			n, c.IngestBufferSize, c.MaxBufferedRows, bound)
	}
	// C05: at most one answer per batch.
	bsnap, _, _ := st.snapshot()
	for _, b := range bsnap {
		if len(b.Answers) > 1 {
			r.Violate("C05", "answered-twice", "batch %s received %d values on its done channel: %v", b.ID, len(b.Answers), fmtAnswers(b.Answers))
		}
	}
}

// trackCommits records, for every applied MetaStore.Update, the rows of the files it made
// referenced and the step at which it returned.
func (st *lifeState) trackCommits() {
	if st.idCommit == nil {
		st.idCommit = map[string]int{}
		st.metaDone = map[int]bool{}
	}
	for i, mc := range st.metaCalls() {
		if st.metaDone[i] || mc.End == 0 {
			continue
		}
		st.metaDone[i] = true
		if !mc.Applied {
			continue
		}
		for _, w := range mc.Writes {
			data, ok := st.fileBytes(w)
			if !ok {
				st.r.Violate("C06", "update-before-publish", "MetaStore.Update referenced %s at step %d but the DataStore has no published file for it", w, mc.End)
				continue
			}
			fv := ViewFromBytes(w, data, false)
			for _, bv := range fv.Blocks {
				for _, id := range bv.IDs {
					if _, seen := st.idCommit[id]; !seen {
						st.idCommit[id] = mc.End
					}
				}
			}
		}
	}
}

// fileBytes returns the published bytes of a file, whichever DataStore is in use.
func (st *lifeState) fileBytes(ptr string) ([]byte, bool) {
	if st.fsStore != nil {
		return simos.Current.ReadFile(ptr)
	}
	return st.disk.FileBytes(ptr)
}

func fmtAnswers(as []answer) string {
	var sb strings.Builder
	for i, a := range as {
		if i > 0 {
			sb.WriteString(", ")
		}
		fmt.Fprintf(&sb, "step %d: %v", a.Step, a.Err)
	}
	return sb.String()
}

// onIdle runs when nothing is enabled, before the clock advances: every actor that could run has
// run, so anything still pending is pending for a reason other than scheduling.
func (st *lifeState) onIdle(now time.Time) {
	r := st.r
	bsnap, stops, _ := st.snapshot()
	// C08 clause 3: Stop obeys its deadline.
	for _, s := range stops {
		if s.HasDL && !s.Returned && now.After(s.Deadline.Add(time.Second)) {
			r.Violate("C08", "stop-past-deadline", "Stop invoked at step %d with deadline +%s has not returned %s after its deadline although no actor is runnable",
				s.InvokeStep, s.Deadline.Sub(s.InvokeAt), now.Sub(s.Deadline))
		}
	}
	if st.wl.Variant != "timed" {
		return
	}
	// C10 (responsive stores, no Flush/Stop, fair schedule).
	c := st.wl.Cfg
	rows, bytes := 0, 0
	partRows, partBytes := map[string]int{}, map[string]int{}
	var pend []string
	for _, b := range bsnap {
		if !b.accepted() || b.NRows == 0 || b.HasBad || len(b.Answers) > 0 || !b.receivable() {
			continue
		}
		pend = append(pend, b.ID)
		rows += b.NRows
		bytes += b.Bytes
		for p, n := range b.PartRows {
			partRows[p] += n
		}
		for p, n := range b.PartByte {
			partBytes[p] += n
		}
		if age := now.Sub(b.RetAt); age > time.Duration(c.MaxBufferedMs)*time.Millisecond+500*time.Millisecond {
			r.Violate("C10", "time-flush-late", "batch %s accepted %s ago is unanswered; MaxBufferedTime=%dms, stores responsive, nothing runnable", b.ID, age, c.MaxBufferedMs)
		}
	}
	if len(pend) == 0 {
		return
	}
	if rows >= c.MaxBufferedRows {
		r.Violate("C10", "row-limit-not-flushed", "unanswered batches %v hold %d rows >= MaxBufferedRows=%d and nothing is runnable", pend, rows, c.MaxBufferedRows)
	}
	if bytes >= c.MaxBufferedBytes {
		r.Violate("C10", "byte-limit-not-flushed", "unanswered batches %v hold %d JSON bytes >= MaxBufferedBytes=%d and nothing is runnable", pend, bytes, c.MaxBufferedBytes)
	}
	for p, n := range partRows {
		if n >= c.MaxRowGroupRows {
			r.Violate("C10", "partition-row-limit-not-flushed", "partition %q holds %d unanswered rows >= MaxRowGroupRows=%d and nothing is runnable", p, n, c.MaxRowGroupRows)
		}
	}
	for p, n := range partBytes {
		if n >= c.MaxRowGroupBytes {
			r.Violate("C10", "partition-byte-limit-not-flushed", "partition %q holds %d unanswered JSON bytes >= MaxRowGroupBytes=%d and nothing is runnable", p, n, c.MaxRowGroupBytes)
		}
	}
}

func compressionOf(s string) bs.CompressionType {
	switch s {
	case "snappy":
		return bs.CompressionSnappy
	case "zstd":
		return bs.CompressionZstd
	}
	return bs.CompressionNone
}

// RunLife executes one S-life run.
func RunLife(r *Run, variant string) {
	wl := genLifeWorkload(r.W, variant)
	st := &lifeState{r: r, wl: wl, quitAll: make(chan struct{})}
	r.Samples = append(r.Samples, wl)

	cfg := bs.DefaultBloomSearchEngineConfig()
	cfg.IngestBufferSize = wl.Cfg.IngestBufferSize
	cfg.MaxBufferedRows = wl.Cfg.MaxBufferedRows
	cfg.MaxBufferedBytes = wl.Cfg.MaxBufferedBytes
	cfg.MaxBufferedTime = time.Duration(wl.Cfg.MaxBufferedMs) * time.Millisecond
	cfg.MaxRowGroupRows = wl.Cfg.MaxRowGroupRows
	cfg.MaxRowGroupBytes = wl.Cfg.MaxRowGroupBytes
	cfg.RowDataCompression = compressionOf(wl.Cfg.Compression)
	cfg.MaxQueryConcurrency = 4
	cfg.MaxFilesToMergePerOperation = 4
	cfg.BloomFalsePositiveRate = 0.01
	if wl.Cfg.Partitioned {
		cfg.PartitionFunc = partitionByP
	}
	cfg.MinMaxIndexes = []string{"n"}
	var logBuf bytes.Buffer
	if variant == "logger" {
		// Control class for C27: with a Logger configured the same paths do log (to the
		// logger, never to stdout/stderr), so the silence of the other classes is not vacuous.
		cfg.Logger = slog.New(slog.NewTextHandler(&lockedWriter{w: &logBuf}, &slog.HandlerOptions{Level: slog.LevelDebug}))
		defer func() { r.ProbeN("c27.logger-bytes", logBuf.Len()) }()
	}
	st.cfg = cfg
	st.disk = NewSimDisk(r)
	st.disk.NoAbort = wl.NoAbort
	st.ds = st.disk
	if variant == "fsds" {
		// The real FileSystemDataStore over simos as DataStore, an atomic MetaStore beside it:
		// both halves of C06 apply, and the faults land on the store's own os calls.
		st.fsStore = bs.NewFileSystemDataStore(fsRoot)
		st.ds = st.fsStore
	}
	if wl.Meta == 0 {
		st.simMeta = NewSimMeta(r)
		st.meta = st.simMeta
	} else {
		st.gmeta = NewGatedMeta(r, bs.NewMemoryMetaStore())
		st.meta = st.gmeta
	}
	eng, err := bs.NewBloomSearchEngine(cfg, st.meta, st.ds)
	if err != nil {
		panic(err)
	}
	st.eng = eng

	// Scheduling and fault policy.
	fine := r.SetupPolicy(variant != "timed" && variant != "enum", 400)
	switch variant {
	case "enum":
		// C06 fault enumeration: the only fault of the run is the enumerated one (or none, in the
		// reference execution); every store call of the whole history is a position.
		r.Faults.Off = true
		r.EnumActive = true
	case "timed":
		r.Faults.Off = true
		r.FairNoClock = true
	case "backpressure":
		r.Faults = FaultPolicy{StallForever: true, HonorCtx: r.S.Bool()}
		r.StallAtKind, r.StallAtNth = wl.StallKind, wl.StallNth
	default:
		fclass := r.S.Draw(4)
		switch fclass {
		case 0:
			r.Faults.Off = true
		default:
			rate := []int{15, 40, 90}[fclass-1]
			r.Faults = FaultPolicy{ErrPermille: map[string]int{}, ShortPermille: rate / 3, LatePermille: rate / 3,
				StallPermille: []int{0, 10, 30}[r.S.Draw(3)], StallForever: r.S.Draw(3) == 0, HonorCtx: r.S.Bool(), MaxFaults: 1 + r.S.Draw(5)}
			for _, k := range []string{"ds.create", "ds.write", "ds.wclose", "ds.abort", "ds.tomb", "ms.update", "ds.open", "ds.read", "ms.iter", "ms.yield"} {
				r.Faults.ErrPermille[k] = rate
			}
			if variant == "fsds" {
				for _, k := range []string{"os.create", "os.write", "os.fsync", "os.close", "os.rename", "os.fsyncdir", "os.remove", "os.open", "os.read"} {
					r.Faults.ErrPermille[k] = rate / 3
				}
			}
		}
	}
	if fine {
		sel := r.S.Draw(4)
		salt := uint64(r.Seed)*0x9e3779b97f4a7c15 + 12345
		pm := []int{1000, 1000, 500, 250}[sel]
		simrt.YieldEnabled = func(site string) bool {
			if sel <= 1 {
				if sel == 1 {
					return strings.HasPrefix(site, "engine.go") || strings.HasPrefix(site, "ingest.go") || strings.HasPrefix(site, "flush.go") || strings.HasPrefix(site, "chan_helpers.go") || site == "start"
				}
				return true
			}
			return int(hashStr(site, salt)%1000) < pm
		}
		simrt.SetMode(simrt.ModeFine)
	} else {
		simrt.SetMode(simrt.ModeCoarse)
	}
	r.OnStep = st.onStep
	r.OnIdle = st.onIdle

	if wl.StartMode == 0 {
		eng.Start()
		st.started = true
	}
	for ci, ops := range wl.Clients {
		ci, ops := ci, ops
		simrt.GoNamed(fmt.Sprintf("client%d", ci), func() { st.client(ci, ops) })
	}
	clientsDone := func() bool {
		r.mu.Lock()
		defer r.mu.Unlock()
		return st.finished == len(wl.Clients)
	}
	// Controller-driven cancellation of ctx kind 3 (Stop with a cancellable SimCtx).
	r.OnPick = func() {
		if len(st.simctxs) > 0 && r.S.Chance(15) {
			r.mu.Lock()
			var cands []*SimCtx
			for _, c := range st.simctxs {
				if !c.hasDeadline && c.Err() == nil {
					cands = append(cands, c)
				}
			}
			r.mu.Unlock()
			if len(cands) > 0 {
				c := cands[r.S.Draw(len(cands))]
				r.Logf("controller cancels %s", c.name)
				c.Cancel()
			}
		}
	}

	r.Loop(clientsDone, 40*time.Second)
	r.OnPick = nil

	// ---- liveness phase: faults stop, stalls end, fair scheduling ----
	// Deadline-less cancellable Stop contexts are cancelled now so every client can finish.
	wedgedStop := false
	_, stops, _ := st.snapshot()
	for _, s := range stops {
		if !s.Returned && s.CtxKind == 0 {
			wedgedStop = true // Stop(Background) may legitimately wait forever behind a wedge
		}
	}
	r.mu.Lock()
	for _, c := range st.simctxs {
		if !c.hasDeadline {
			c.Cancel()
		}
	}
	r.mu.Unlock()
	okClients := r.FairDrain(clientsDone, 6000, 60*time.Second)
	r.Probe("life.runs")
	if !okClients {
		r.Probe("life.clients-unfinished")
	}
	_ = wedgedStop

	// Engines that are running (started, never stopped) must answer every receivable batch on
	// their own once stores respond: give them MaxBufferedTime plus an allowance.
	allAnswered := func() bool {
		n, _ := st.outstanding()
		return n == 0 && clientsDone()
	}
	_, stops, _ = st.snapshot()
	if st.started && len(stops) == 0 && !r.Budget {
		r.FairDrain(allAnswered, 4000, cfg.MaxBufferedTime+3*time.Second)
	} else if !r.Budget {
		r.FairDrain(allAnswered, 1500, 2*time.Second)
	}
	st.poll()

	st.evaluate(okClients)

	// ---- teardown ----
	ok := r.Teardown(func() {
		close(st.quitAll)
		for _, c := range st.cancels {
			c()
		}
		for _, c := range st.simctxs {
			c.Cancel()
		}
		cctx, cancel := context.WithCancel(context.Background())
		cancel()
		simrt.GoNamed("teardown-stop", func() { st.eng.Stop(cctx) })
	})
	if !ok {
		r.Dirty = true
		r.Logf("teardown left goroutines: %v", simrt.AliveNames())
	}
}

func hashStr(s string, salt uint64) uint64 {
	h := uint64(1469598103934665603) ^ salt
	for i := 0; i < len(s); i++ {
		h ^= uint64(s[i])
		h *= 1099511628211
	}
	h ^= h >> 29
	h *= 0xbf58476d1ce4e5b9
	h ^= h >> 32
	return h
}

// evaluate applies the post-hoc oracles of C05–C08 over the recorded history and the stores.
func (st *lifeState) evaluate(clientsFinished bool) {
	r := st.r
	batches, stops, queries := st.snapshot()
	if r.Budget {
		return // inconclusive run: no verdicts
	}

	var stopNil, stopErr *stopRec
	firstStopRet := 0
	for _, s := range stops {
		if !s.Returned {
			continue
		}
		if firstStopRet == 0 || s.RetStep < firstStopRet {
			firstStopRet = s.RetStep
		}
		if s.Err == nil && (stopNil == nil || s.RetStep < stopNil.RetStep) {
			stopNil = s
		}
		if s.Err != nil && (stopErr == nil || s.RetStep < stopErr.RetStep) {
			stopErr = s
		}
	}
	// A Stop whose deadline expired abandons waiters by design; a later Stop that returns nil
	// only reports that the workers have exited. "nil means drained" is therefore demanded only
	// of a nil Stop that no deadline-expired (or still running) Stop preceded or overlapped.
	if stopNil != nil {
		for _, s := range stops {
			if s != stopNil && (s.Err != nil || !s.Returned) && s.InvokeStep <= stopNil.RetStep {
				stopNil = nil
				break
			}
		}
	}
	firstStopInvoke := 0
	for _, s := range stops {
		if firstStopInvoke == 0 || s.InvokeStep < firstStopInvoke {
			firstStopInvoke = s.InvokeStep
		}
	}

	// Non-triviality for the evidence.
	for _, b := range batches {
		if len(stops) > 0 && b.Returned && b.InvokeStep <= firstStopRetOr(firstStopRet, 1<<30) && b.RetStep >= firstStopInvoke {
			r.NonTriv["C05"] = true
			r.NonTriv["C08"] = true
			r.Probe("life.op-overlaps-stop")
		}
	}
	switch st.wl.Variant {
	case "backpressure":
		blocked := 0
		for _, b := range batches {
			if b.Returned && b.RetErr != nil {
				blocked++
			}
		}
		if len(r.FaultCt) > 0 && blocked > 0 {
			r.NonTriv["C09"] = true
		}
		r.ProbeN("c09.ingest-timed-out", blocked)
		r.ProbeN("c09.max-outstanding", st.maxOutstanding)
	case "timed":
		for _, b := range batches {
			if b.NRows > 0 && len(b.Answers) > 0 && b.Answers[0].Err == nil {
				r.NonTriv["C10"] = true
				r.Probe("c10.auto-flushed-batches")
			}
			if b.HasBad && len(b.Answers) > 0 && b.Answers[0].Err != nil {
				r.Probe("c10.rejected-batches")
			}
		}
	}
	if len(r.FaultCt) > 0 {
		r.NonTriv["C05"] = true
		r.NonTriv["C06"] = true
	}
	if stopErr != nil {
		r.NonTriv["C08"] = true
		r.Probe("life.stop-deadline-error")
	}
	if st.wl.StartMode != 0 {
		r.Probe("life.late-or-never-start")
	}

	// ---- C08 clause 1: once Stop has returned, IngestRows and Flush return ErrEngineStopped ----
	if firstStopRet > 0 {
		for _, b := range batches {
			if b.Returned && b.InvokeStep > firstStopRet {
				if !errors.Is(b.RetErr, bs.ErrEngineStopped) {
					what := "IngestRows"
					if b.IsFlush {
						what = "Flush"
					}
					r.Violate("C08", "accepts-after-stop", "%s %s invoked at step %d, after Stop returned at step %d, returned %v instead of ErrEngineStopped",
						what, b.ID, b.InvokeStep, firstStopRet, b.RetErr)
				}
			}
		}
	}

	// An accepted batch with an abandoned unbuffered done channel wedges the pipeline behind it
	// (documented backpressure): other batches' liveness cannot be demanded then.
	abandoned := false
	for _, b := range batches {
		if b.accepted() && b.Op.Done == 4 {
			abandoned = true
		}
	}

	// ---- C05 / C08 clause 2: exactly once ----
	for _, b := range batches {
		if b.IsFlush {
			continue
		}
		if !b.accepted() || !b.receivable() {
			continue
		}
		if len(b.Answers) == 0 {
			switch {
			case stopNil != nil:
				r.Violate("C05", "unanswered-after-graceful-stop", "batch %s accepted at step %d was never answered although Stop returned nil at step %d", b.ID, b.RetStep, stopNil.RetStep)
			case len(stops) == 0 && st.started && clientsFinished && !abandoned:
				r.Violate("C05", "unanswered-live-engine", "batch %s accepted at step %d was never answered by a running engine (stores responsive, MaxBufferedTime=%dms elapsed, receiver alive)", b.ID, b.RetStep, st.wl.Cfg.MaxBufferedMs)
			case stopErr != nil && stopAllReturned(stops) && b.Op.Done == 1:
				// Only buffered channels "can still receive" at whatever instant the engine
				// gives up: an unbuffered channel whose receiver is not blocked in the receive
				// at that instant cannot be handed anything by a non-blocking send.
				// C08 clause 4: after a deadline error every waiter that can still receive gets an
				// error, not silence (store calls have been released by now).
				r.Violate("C08", "silent-after-deadline", "batch %s accepted at step %d never received anything after Stop returned %v at step %d and stores were released", b.ID, b.RetStep, stopErr.Err, stopErr.RetStep)
			}
		}
		if stopNil != nil && b.RetStep <= stopNil.RetStep {
			if len(b.Answers) == 0 || b.Answers[0].Step > stopNil.RetStep {
				ans := "never"
				if len(b.Answers) > 0 {
					ans = fmt.Sprintf("only at step %d", b.Answers[0].Step)
				}
				r.Violate("C08", "stop-nil-before-drained", "Stop returned nil at step %d but batch %s (accepted at step %d) was answered %s", stopNil.RetStep, b.ID, b.RetStep, ans)
			}
		}
	}
	// Flush is answered by its return value.
	for _, b := range batches {
		if b.IsFlush && !b.Returned && clientsFinished {
			r.Violate("C05", "flush-never-returned", "Flush %s invoked at step %d never returned", b.ID, b.InvokeStep)
		}
	}

	// ---- C08 clause 4: after a deadline error no further store work starts ----
	if stopErr != nil {
		for _, c := range st.disk.CallsSnapshot() {
			if c.Kind == "create" && c.Step > stopErr.RetStep && !strings.HasPrefix(c.Tag, "merge") {
				r.Violate("C08", "store-work-after-deadline", "CreateFile invoked at step %d after Stop returned %v at step %d", c.Step, stopErr.Err, stopErr.RetStep)
			}
		}
		createdAfter := map[string]bool{}
		for _, c := range st.disk.CallsSnapshot() {
			if c.Kind == "create" && c.Step > stopErr.RetStep {
				createdAfter[c.Ptr] = true
			}
		}
		for _, mc := range st.metaCalls() {
			for _, w := range mc.Writes {
				if createdAfter[w] && len(mc.Deletes) == 0 {
					r.Violate("C08", "update-after-deadline", "MetaStore.Update for %s (created after Stop returned its deadline error at step %d) invoked at step %d", w, stopErr.RetStep, mc.Step)
				}
			}
		}
	}

	// ---- C06: acknowledgements are truthful ----
	simrt.SetMode(simrt.ModeOff)
	census := TakeCensus(st.meta, st.ds, false)
	fresh, ferr := bs.NewBloomSearchEngine(st.cfg, st.meta, st.ds)
	var freshIDs map[string]int
	var freshErr error
	if ferr == nil {
		rows, qerr, _ := QueryAll(fresh, context.Background(), nil)
		freshErr = qerr
		freshIDs = map[string]int{}
		for _, row := range rows {
			freshIDs[idOfRow(row)]++
		}
	}
	sameRows, sameErr, _ := QueryAll(st.eng, context.Background(), nil)
	sameIDs := map[string]int{}
	for _, row := range sameRows {
		sameIDs[idOfRow(row)]++
	}
	known := map[string]*lifeBatch{}
	for _, b := range batches {
		for _, id := range b.RowIDs {
			known[id] = b
		}
	}
	if census.Err != nil {
		r.Violate("C06", "census-failed", "MetaStore listing failed after faults stopped: %v", census.Err)
	}
	for _, fv := range census.Files {
		if fv.Err != nil {
			r.Violate("C06", "referenced-file-unreadable", "file %s is referenced by the MetaStore but cannot be read: %v", fv.Ptr, fv.Err)
		}
		for _, bv := range fv.Blocks {
			if bv.Err != nil {
				r.Violate("C06", "referenced-block-unreadable", "block %s@%d is referenced by the MetaStore but cannot be read: %v", fv.Ptr, bv.Meta.RowDataOffset, bv.Err)
			}
		}
	}
	views := []struct {
		name string
		ids  map[string]int
		err  error
	}{{"census", census.IDs, nil}, {"fresh-engine query", freshIDs, freshErr}, {"same-engine query", sameIDs, sameErr}}
	for _, v := range views {
		if v.ids == nil {
			continue
		}
		if v.err != nil {
			r.Violate("C06", "final-query-error", "%s over the final stores failed without any fault in flight: %v", v.name, v.err)
			continue
		}
		for id, n := range v.ids {
			b := known[id]
			if b == nil {
				r.Violate("C06", "unknown-row", "%s returned row %q that no batch contained", v.name, id)
				continue
			}
			if n > 1 {
				r.Violate("C06", "duplicate-row", "%s returned row %q of batch %s %d times", v.name, id, b.ID, n)
			}
			if b.HasBad {
				r.Violate("C06", "rejected-batch-visible", "%s shows row %q of batch %s, which contains an unmarshalable row", v.name, id, b.ID)
			}
			if !b.accepted() {
				r.Violate("C06", "unaccepted-batch-visible", "%s shows row %q of batch %s whose IngestRows returned %v", v.name, id, b.ID, b.RetErr)
			}
			if len(b.Answers) > 0 && b.Answers[0].Err != nil {
				r.Violate("C06", "errored-batch-visible", "%s shows row %q of batch %s, which was answered with error %v at step %d", v.name, id, b.ID, b.Answers[0].Err, b.Answers[0].Step)
			}
		}
		for _, b := range batches {
			if b.IsFlush || b.NRows == 0 {
				continue
			}
			seen := 0
			for _, id := range b.RowIDs {
				if v.ids[id] > 0 {
					seen++
				}
			}
			if len(b.Answers) > 0 && b.Answers[0].Err == nil && seen != len(b.RowIDs) {
				r.Violate("C06", "acked-batch-not-visible", "batch %s was answered nil at step %d but %s shows %d of its %d rows", b.ID, b.Answers[0].Step, v.name, seen, len(b.RowIDs))
			}
			if seen != 0 && seen != len(b.RowIDs) {
				r.Violate("C06", "partial-batch-visible", "%s shows %d of the %d rows of batch %s", v.name, seen, len(b.RowIDs), b.ID)
			}
		}
	}
	// Unmarshalable batches are answered with an error.
	for _, b := range batches {
		if b.HasBad && b.accepted() && b.receivable() && len(b.Answers) > 0 && b.Answers[0].Err == nil {
			r.Violate("C06", "bad-batch-acked-nil", "batch %s contains an unmarshalable row but was answered nil", b.ID)
		}
	}
	// Mid-run queries.
	for _, q := range queries {
		if !q.Done {
			continue
		}
		seen := map[string]int{}
		for _, id := range q.IDs {
			seen[id]++
			b := known[id]
			if b == nil {
				r.Violate("C06", "unknown-row", "query at step %d returned row %q that no batch contained", q.InvokeStep, id)
				continue
			}
			if seen[id] > 1 && q.Err == nil {
				r.Violate("C14", "duplicate-row-in-query", "query invoked at step %d returned row %q twice with a nil error", q.InvokeStep, id)
			}
			if len(b.Answers) > 0 && b.Answers[0].Err != nil {
				r.Violate("C06", "errored-batch-visible", "query at step %d shows row %q of batch %s, answered with error %v", q.InvokeStep, id, b.ID, b.Answers[0].Err)
			}
			if b.HasBad {
				r.Violate("C06", "rejected-batch-visible", "query at step %d shows row %q of rejected batch %s", q.InvokeStep, id, b.ID)
			}
		}
		if q.Err == nil {
			for _, b := range batches {
				if len(b.Answers) > 0 && b.Answers[0].Err == nil && b.Answers[0].Step < q.InvokeStep {
					for _, id := range b.RowIDs {
						if seen[id] == 0 {
							r.Violate("C14", "acked-row-missing-in-query", "query invoked at step %d finished with nil error but misses row %q of batch %s acknowledged at step %d", q.InvokeStep, id, b.ID, b.Answers[0].Step)
						}
					}
				}
			}
		}
	}

	// ---- C07: acknowledgement order / Flush barrier ----
	type nilEvent struct {
		who    string
		invoke int
		step   int
	}
	var nils []nilEvent
	for _, b := range batches {
		if b.IsFlush {
			if b.Returned && b.RetErr == nil {
				nils = append(nils, nilEvent{"Flush " + b.ID, b.InvokeStep, b.RetStep})
			}
			continue
		}
		if b.NRows > 0 && len(b.Answers) > 0 && b.Answers[0].Err == nil {
			nils = append(nils, nilEvent{"batch " + b.ID, b.InvokeStep, b.Answers[0].Step})
		}
	}
	sort.Slice(nils, func(i, j int) bool { return nils[i].step < nils[j].step })
	// nil => committed by then (C06 timing; the census above checks the final state).
	for _, b := range batches {
		if b.IsFlush || b.NRows == 0 || len(b.Answers) == 0 || b.Answers[0].Err != nil {
			continue
		}
		for _, id := range b.RowIDs {
			cs, ok := st.idCommit[id]
			if !ok || cs > b.Answers[0].Step {
				r.Violate("C06", "acked-before-commit", "batch %s was answered nil at step %d but row %q was committed to the MetaStore %s", b.ID, b.Answers[0].Step, id, commitWhen(cs, ok))
			}
		}
	}
	// Once a Stop that can expire (deadline or cancellable context) is under way, deliveries may be
	// abandoned by design, so acknowledgement order is only demanded of events before the first one.
	abortableStop := 0
	for _, s := range stops {
		if s.CtxKind != 0 && (abortableStop == 0 || s.InvokeStep < abortableStop) {
			abortableStop = s.InvokeStep
		}
	}
	for _, ne := range nils {
		if abortableStop > 0 && ne.step >= abortableStop {
			continue
		}
		for _, i := range batches {
			if i.IsFlush || i.NRows == 0 || !i.accepted() || !i.receivable() {
				continue
			}
			if i.RetStep >= ne.invoke {
				continue // not accepted (in real time) before the later operation was invoked
			}
			r.NonTriv["C07"] = true
			if len(i.Answers) == 0 || i.Answers[0].Step > ne.step {
				ans := "never answered"
				if len(i.Answers) > 0 {
					ans = fmt.Sprintf("answered only at step %d", i.Answers[0].Step)
				}
				// Unbuffered channels decide ordering too: a send on one completes in the very
				// step its receiver's receive completes (rendezvous), so the recorded step is the
				// engine's send step, and an engine that answers in acceptance order cannot have
				// completed a later answer in an earlier step.
				r.Violate("C07", "ack-overtakes-earlier-batch", "%s got nil at step %d although batch %s, accepted at step %d before it was invoked (step %d), was %s",
					ne.who, ne.step, i.ID, i.RetStep, ne.invoke, ans)
				continue
			}
			if i.Answers[0].Err == nil && !i.HasBad {
				for _, id := range i.RowIDs {
					if cs, ok := st.idCommit[id]; !ok || cs > ne.step {
						r.Violate("C07", "earlier-ack-not-visible", "%s got nil at step %d; earlier batch %s was answered nil but its row %q was committed %s", ne.who, ne.step, i.ID, id, commitWhen(cs, ok))
					}
				}
			}
		}
	}
}

func commitWhen(step int, ok bool) string {
	if !ok {
		return "never"
	}
	return fmt.Sprintf("only at step %d", step)
}

func firstStopRetOr(v, dflt int) int {
	if v == 0 {
		return dflt
	}
	return v
}

func stopAllReturned(stops []*stopRec) bool {
	for _, s := range stops {
		if !s.Returned {
			return false
		}
	}
	return true
}

func (st *lifeState) metaCalls() []MetaCall {
	if st.simMeta != nil {
		return st.simMeta.CallsSnapshot()
	}
	return st.gmeta.CallsSnapshot()
}
