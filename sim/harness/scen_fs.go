package harness

import (
	"bytes"
	"context"
	"errors"
	"fmt"
	"io"
	"sort"
	"strings"
	"sync"
	"time"

	bs "github.com/danthegoodman1/bloomsearch"
	"verifsim/simos"
	"verifsim/simrt"
)

// S-fs: the real FileSystemDataStore over the simulated OS (DESIGN.md §5). Variants:
//   spec  — C16: direct call sequences against a reference model
//   crash — C15: engine histories with a crash / power loss at every file-system mutation boundary
//   conc  — C14 with FileSystemDataStore as DataStore and MetaStore

const fsRoot = "/data"

// ---------------------------------------------------------------------------------------------
// C16

type fsScript struct {
	Payload  int   `json:"payload"`   // 0 random bytes, 1 a valid bloom file, 2 empty, 3 another valid bloom file
	Chunks   []int `json:"chunks"`    // write sizes (payload is cut accordingly)
	End      int   `json:"end"`       // 0 close, 1 abort, 2 close then abort, 3 close twice, 4 leave open, 5 abort then close
	Tomb     int   `json:"tombstone"` // 0 no, 1 tombstone afterwards, 2 tombstone an unknown pointer
	ReadBack bool  `json:"read_back"`
	Names    []int `json:"names"` // name pool indexes for the first draws of this CreateFile
}

type fsSpecWorkload struct {
	Writers [][]fsScript `json:"writers"`
	Faults  bool         `json:"faults"`
}

type fsModelFile struct {
	state string // reserved, closed, aborted, tombstoned, tainted
	bytes []byte
	valid bool // payload is a valid bloom file
	busy  bool // an operation on it is in flight
	owner int  // writer whose CreateFile returned it
	open  bool // its write cycle (CreateFile .. last Close/Abort of the script) is not over yet
}

type fsSpecState struct {
	r        *Run
	store    *bs.FileSystemDataStore
	mu       sync.Mutex
	model    map[string]*fsModelFile
	valid    [][]byte // prebuilt valid bloom files
	uniq     int
	fin      int
	creating int             // CreateFile calls in flight (their reservation / temp file exist before they return)
	tombing  map[string]int  // TombstoneFile calls in flight per pointer
	inflight map[string]int  // operations in flight per pointer (any kind, any writer)
	racy     map[string]bool // two operations on the pointer overlapped at some time
	// drawing: names an in-flight CreateFile has drawn (its reservation may exist) but whose
	// pointer has not been returned yet, per pointer.
	drawing map[string]int
	// stolen: a TombstoneFile on the pointer overlapped an in-flight CreateFile that had drawn
	// the same name: the tombstone may have removed that CreateFile's live reservation, after
	// which two write cycles can share the name (known finding F14). Violations on such a
	// pointer are reported under their own kind.
	stolen  map[string]bool
	drawnBy map[int][]string
	tombSeq map[string]int  // TombstoneFile calls started so far, per pointer
	orphan  map[string]bool // a failed CreateFile drew this name while faults were being injected
}

// kindFor qualifies a violation kind for pointers hit by the F14 history.
func (st *fsSpecState) kindFor(ptr, kind string) string {
	if st.stolen[ptr] {
		return kind + "-after-tombstone-raced-create"
	}
	return kind
}

// enter notes the start of an operation on ptr (st.mu held).
func (st *fsSpecState) enter(ptr string) {
	if st.inflight[ptr] > 0 {
		st.racy[ptr] = true
	}
	st.inflight[ptr]++
}

func genFsSpecWorkload(w *Tape) *fsSpecWorkload {
	wl := &fsSpecWorkload{Faults: w.Draw(3) == 0}
	nw := w.Range(1, 4)
	for i := 0; i < nw; i++ {
		var scripts []fsScript
		n := w.Range(2, 8)
		for j := 0; j < n; j++ {
			s := fsScript{Payload: w.Draw(4), End: []int{0, 0, 0, 1, 2, 3, 4, 5, 6, 7, 8, 8, 9}[w.Draw(13)], Tomb: []int{0, 0, 0, 1, 1, 2}[w.Draw(6)], ReadBack: w.Bool()}
			nc := w.Range(1, 4)
			for k := 0; k < nc; k++ {
				s.Chunks = append(s.Chunks, []int{0, 1, 7, 64, 500}[w.Draw(5)])
			}
			nn := w.Draw(4)
			for k := 0; k < nn; k++ {
				s.Names = append(s.Names, w.Draw(5))
			}
			scripts = append(scripts, s)
		}
		wl.Writers = append(wl.Writers, scripts)
	}
	return wl
}

// buildValidFiles produces small valid bloom files (through a throw-away engine over a SimDisk).
func buildValidFiles(r *Run, n int) [][]byte {
	var out [][]byte
	for i := 0; i < n; i++ {
		d := NewSimDisk(r)
		m := NewSimMeta(r)
		cfg := bs.DefaultBloomSearchEngineConfig()
		eng, err := bs.NewBloomSearchEngine(cfg, m, d)
		if err != nil {
			panic(err)
		}
		eng.Start()
		ch := make(chan error, 1)
		eng.IngestRows(context.Background(), []map[string]any{{"_id": fmt.Sprintf("v%d", i), "msg": "valid file"}}, ch)
		eng.Flush(context.Background())
		<-ch
		eng.Stop(context.Background())
		for _, p := range d.Published() {
			b, _ := d.FileBytes(p)
			out = append(out, b)
		}
	}
	return out
}

func (st *fsSpecState) payload(kind int, total int, salt int) ([]byte, bool) {
	switch kind {
	case 1:
		return st.valid[0], true
	case 3:
		return st.valid[1], true
	case 2:
		return nil, false
	}
	b := make([]byte, total)
	for i := range b {
		b[i] = byte(salt*31 + i*7)
	}
	return b, false
}

func (st *fsSpecState) writer(wi int, scripts []fsScript, names *[]int) {
	r := st.r
	ctx := context.Background()
	for si, sc := range scripts {
		simrt.Gate("op", fmt.Sprintf("w%d create %d", wi, si), nil)
		st.mu.Lock()
		*names = append([]int(nil), sc.Names...)
		st.creating++
		st.mu.Unlock()
		wr, ptrB, err := st.store.CreateFile(ctx)
		st.mu.Lock()
		st.creating--
		for _, d := range st.drawnBy[wi] {
			st.drawing[d]--
		}
		if err != nil && r.faultsFired() {
			// A CreateFile that failed on an injected fault may have been unable to release
			// its 0-byte reservation as well; that orphan is invisible to scans and legitimate.
			for _, d := range st.drawnBy[wi] {
				st.orphan[d] = true
			}
		}
		st.drawnBy[wi] = nil
		st.mu.Unlock()
		if err != nil {
			r.Logf("w%d CreateFile -> %v", wi, err)
			continue
		}
		ptr := string(ptrB)
		// The model is keyed by pointer and holds the latest generation of each name: a name
		// freed by Abort or TombstoneFile may legitimately be handed out again.
		st.mu.Lock()
		old := st.model[ptr]
		mf := &fsModelFile{state: "reserved", owner: wi, open: true}
		st.model[ptr] = mf
		tombRacing := st.tombing[ptr] > 0
		st.mu.Unlock()
		if old != nil && !old.busy && !tombRacing && !st.racy[ptr] && (old.state == "reserved" || old.state == "closed") {
			r.Violate("C16", st.kindFor(ptr, "create-returned-live-pointer"), "CreateFile returned %s, which is already %s (owned by an earlier CreateFile that was neither aborted nor tombstoned)", ptr, old.state)
		}
		r.Logf("w%d CreateFile -> %s", wi, ptr)
		total := 0
		for _, c := range sc.Chunks {
			total += c
		}
		data, valid := st.payload(sc.Payload, total, wi*100+si)
		call := func(fn func() error) error {
			st.mu.Lock()
			mf.busy = true
			st.enter(ptr)
			st.mu.Unlock()
			err := fn()
			st.mu.Lock()
			mf.busy = false
			st.inflight[ptr]--
			st.mu.Unlock()
			return err
		}
		doClose := func() error {
			err := call(wr.Close)
			st.mu.Lock()
			if mf.state == "reserved" {
				if err == nil {
					mf.state, mf.bytes, mf.valid = "closed", data, valid
				} else {
					mf.state = "tainted"
				}
			}
			st.mu.Unlock()
			return err
		}
		doAbort := func() error {
			err := call(wr.(interface{ Abort() error }).Abort)
			st.mu.Lock()
			if mf.state == "reserved" {
				if err == nil {
					mf.state = "aborted"
				} else {
					mf.state = "tainted"
				}
			}
			st.mu.Unlock()
			return err
		}
		off := 0
		failed := false
		for ci, c := range sc.Chunks {
			end := off + c
			if ci == len(sc.Chunks)-1 || end > len(data) {
				end = len(data)
			}
			if end < off {
				end = off
			}
			chunk := data[off:end]
			if err := call(func() error { _, e := wr.Write(chunk); return e }); err != nil {
				failed = true
				break
			}
			off = end
		}
		switch {
		case failed:
			doAbort()
			st.mu.Lock()
			mf.state = "tainted"
			st.mu.Unlock()
		case sc.End == 0:
			doClose()
		case sc.End == 1:
			doAbort()
		case sc.End == 2:
			if doClose() == nil {
				if aerr := doAbort(); aerr != nil {
					r.Violate("C16", st.kindFor(ptr, "abort-after-close-failed"), "Abort after a successful Close of %s returned %v", ptr, aerr)
				}
			}
		case sc.End == 3:
			doClose()
			doClose()
		case sc.End == 4:
			// abandoned: stays reserved for the rest of the run
		case sc.End == 5:
			doAbort()
			doClose() // Close after Abort must not publish anything
		case sc.End == 6:
			// A redundant Close followed by Abort must leave a published file alone.
			doClose()
			doClose()
			doAbort()
		case sc.End == 7:
			doClose()
			doAbort()
			doClose()
			doAbort()
		case sc.End == 8:
			// A repeated Abort (explicit error path plus a deferred one) owns nothing any more:
			// the names may have been handed out again in between.
			doAbort()
			doAbort()
		case sc.End == 9:
			doAbort()
			doClose()
			doAbort()
		}
		st.mu.Lock()
		mf.open = false
		st.mu.Unlock()
		if sc.ReadBack {
			simrt.Gate("op", fmt.Sprintf("w%d open %d", wi, si), nil)
			st.mu.Lock()
			cur := st.model[ptr]
			state, want := cur.state, cur.bytes
			// A TombstoneFile on this pointer (by any writer) that is in flight at any time
			// during the read-back makes its outcome indeterminate.
			tombBefore := st.tombing[ptr] > 0
			tombSeq := st.tombSeq[ptr]
			st.mu.Unlock()
			h, err := st.store.OpenFile(ctx, ptrB)
			if err == nil {
				got, rerr := io.ReadAll(h)
				h.Close()
				st.mu.Lock()
				still := st.model[ptr] == cur && cur.state == "closed" && !cur.busy && !st.racy[ptr] && !tombBefore && st.tombSeq[ptr] == tombSeq
				st.mu.Unlock()
				if rerr == nil && state == "closed" && still && !bytes.Equal(got, want) {
					r.Violate("C16", st.kindFor(ptr, "read-back-differs"), "OpenFile(%s) returned %d bytes that differ from the %d bytes written", ptr, len(got), len(want))
				}
			} else if state == "closed" {
				st.mu.Lock()
				still := st.model[ptr] == cur && cur.state == "closed" && !cur.busy && !st.racy[ptr] && !tombBefore && st.tombSeq[ptr] == tombSeq
				st.mu.Unlock()
				if still && !r.faultsFired() {
					r.Violate("C16", st.kindFor(ptr, "closed-file-not-openable"), "OpenFile(%s) failed with %v although its Close succeeded and it was not tombstoned", ptr, err)
				}
			}
		}
		switch sc.Tomb {
		case 1:
			simrt.Gate("op", fmt.Sprintf("w%d tomb %d", wi, si), nil)
			// TombstoneFile acts on the pointer: whatever generation currently lives there.
			// While the call is in flight the pointer's fate is indeterminate, including for a
			// generation another writer creates at the same (freed) name meanwhile.
			st.mu.Lock()
			target := st.model[ptr]
			st.tombing[ptr]++
			st.tombSeq[ptr]++
			if st.drawing[ptr] > 0 || (target.open && target.owner != wi) {
				// The name is held by a write cycle that is not over: an in-flight CreateFile
				// that drew it, or another writer's file still being written.
				st.stolen[ptr] = true
				r.Probe("fs.tombstone-raced-create")
			}
			st.enter(ptr)
			st.mu.Unlock()
			err := st.store.TombstoneFile(ctx, ptrB)
			st.mu.Lock()
			st.tombing[ptr]--
			st.inflight[ptr]--
			cur := st.model[ptr]
			switch {
			case cur != target:
				cur.state = "tainted" // recycled during the tombstone: may or may not have been removed
				target.state = "tombstoned"
			case err == nil:
				target.state = "tombstoned"
			default:
				target.state = "tainted"
			}
			st.mu.Unlock()
			r.Logf("w%d TombstoneFile(%s) -> %v", wi, ptr, err)
		case 2:
			st.store.TombstoneFile(ctx, []byte(fsRoot+"/bloom-unknown-pointer.dat"))
		}
	}
	st.mu.Lock()
	st.fin++
	st.mu.Unlock()
}

func (r *Run) faultsFired() bool {
	r.mu.Lock()
	defer r.mu.Unlock()
	return len(r.FaultCt) > 0
}

// checkSpec compares the directory with the model at a quiescent point.
func (st *fsSpecState) checkSpec(final bool) {
	r := st.r
	fs := simos.Current
	listing := fs.Listing(fsRoot)
	st.mu.Lock()
	defer st.mu.Unlock()
	anyBusy := st.creating > 0
	for ptr, mf := range st.model {
		if mf.busy || st.tombing[ptr] > 0 {
			anyBusy = true
			continue
		}
		if st.racy[ptr] {
			continue // two operations on this pointer overlapped: any outcome is legitimate
		}
		name := strings.TrimPrefix(ptr, fsRoot+"/")
		tmp := strings.TrimSuffix(name, ".dat") + ".tmp"
		size, present := listing[name]
		switch mf.state {
		case "closed":
			if !present {
				r.Violate("C16", st.kindFor(ptr, "closed-file-missing"), "%s was closed successfully and not tombstoned, but the directory has no such entry", ptr)
				continue
			}
			got, _ := fs.ReadFile(ptr)
			if !bytes.Equal(got, mf.bytes) {
				r.Violate("C16", st.kindFor(ptr, "closed-file-bytes-changed"), "%s holds %d bytes that differ from the %d bytes written before its Close", ptr, len(got), len(mf.bytes))
			}
		case "aborted":
			if st.creating > 0 {
				continue // the name may be in the middle of being handed out again
			}
			if present && size > 0 {
				r.Violate("C16", st.kindFor(ptr, "aborted-file-published"), "%s was aborted but the directory holds a %d-byte entry for it", ptr, size)
			}
			if _, ok := listing[tmp]; ok {
				r.Violate("C16", st.kindFor(ptr, "aborted-temp-left"), "%s was aborted but its temporary file %s is still there", ptr, tmp)
			}
		case "tombstoned":
			if st.creating > 0 {
				continue
			}
			if present && !(size == 0 && st.orphan[ptr]) {
				r.Violate("C16", st.kindFor(ptr, "tombstoned-file-present"), "%s was tombstoned but the directory still has a %d-byte entry for it", ptr, size)
			}
			if _, ok := listing[tmp]; ok {
				r.Violate("C16", st.kindFor(ptr, "tombstoned-temp-left"), "%s was tombstoned but its temporary file %s is still there", ptr, tmp)
			}
		case "reserved":
			if present && size > 0 {
				r.Violate("C16", st.kindFor(ptr, "unclosed-file-published"), "%s was never closed but the directory holds a %d-byte entry for it", ptr, size)
			}
		}
	}
	// Non-empty .dat entries are exactly the closed pointers (in-flight and tainted ones aside).
	for name, size := range listing {
		if !strings.HasSuffix(name, ".dat") || size == 0 {
			continue
		}
		mf := st.model[fsRoot+"/"+name]
		if st.racy[fsRoot+"/"+name] {
			continue
		}
		if mf == nil {
			if !anyBusy {
				r.Violate("C16", st.kindFor(fsRoot+"/"+name, "unknown-file-in-directory"), "the directory holds %s (%d bytes), which no CreateFile returned", name, size)
			}
			continue
		}
		if mf.busy || mf.state == "tainted" || mf.state == "closed" {
			continue
		}
		r.Violate("C16", st.kindFor(fsRoot+"/"+name, "non-closed-file-visible"), "the directory holds %d bytes at %s, whose state is %s", size, name, mf.state)
	}
	if anyBusy && !final {
		return
	}
	// The directory scan lists exactly the closed, live pointers whose payload is a valid file.
	prev := simrt.Mode()
	simrt.SetMode(simrt.ModeOff)
	metas, err := ListMeta(st.store)
	simrt.SetMode(prev)
	if err != nil {
		r.Violate("C16", "scan-failed", "GetMaybeFilesForQuery failed without an injected fault: %v", err)
		return
	}
	listed := map[string]bool{}
	for _, m := range metas {
		listed[m.Ptr] = true
		mf := st.model[m.Ptr]
		if mf == nil || mf.busy || mf.state == "tainted" || st.racy[m.Ptr] {
			continue
		}
		if mf.state != "closed" || !mf.valid {
			r.Violate("C16", st.kindFor(m.Ptr, "scan-lists-wrong-file"), "the directory scan lists %s, whose state is %s (valid bloom payload: %v)", m.Ptr, mf.state, mf.valid)
		}
	}
	for ptr, mf := range st.model {
		if !mf.busy && !st.racy[ptr] && mf.state == "closed" && mf.valid && !listed[ptr] {
			r.Violate("C16", st.kindFor(ptr, "scan-misses-file"), "the directory scan does not list %s, which was closed successfully with a valid bloom payload and not tombstoned", ptr)
		}
	}
}

func runFsSpec(r *Run) {
	wl := genFsSpecWorkload(r.W)
	r.Samples = append(r.Samples, wl)
	st := &fsSpecState{r: r, model: map[string]*fsModelFile{}, tombing: map[string]int{}, inflight: map[string]int{}, racy: map[string]bool{},
		drawing: map[string]int{}, stolen: map[string]bool{}, drawnBy: map[int][]string{}, tombSeq: map[string]int{}, orphan: map[string]bool{}}
	simrt.SetMode(simrt.ModeOff)
	st.valid = buildValidFiles(r, 2)
	st.store = bs.NewFileSystemDataStore(fsRoot)
	pool := []string{"bloom-a", "bloom-b", "bloom-c", "bloom-d", "bloom-e"}
	pending := make([][]int, len(wl.Writers))
	// The name draw is made by whichever writer is inside CreateFile; each writer's next draws
	// come from its own list, then from a unique counter.
	bs.VerifSetDrawFileName(st.store, func() string {
		me := simrt.Name()
		st.mu.Lock()
		defer st.mu.Unlock()
		for wi := range pending {
			if me == fmt.Sprintf("fswriter%d", wi) && len(pending[wi]) > 0 {
				n := pending[wi][0]
				pending[wi] = pending[wi][1:]
				ptr := fsRoot + "/" + pool[n] + ".dat"
				st.drawing[ptr]++
				st.drawnBy[wi] = append(st.drawnBy[wi], ptr)
				if st.tombing[ptr] > 0 {
					st.stolen[ptr] = true
				}
				return pool[n]
			}
		}
		st.uniq++
		return fmt.Sprintf("bloom-u%04d", st.uniq)
	})
	r.SetupPolicy(false, 600)
	if wl.Faults {
		rate := []int{15, 40}[r.S.Draw(2)]
		r.Faults = FaultPolicy{ErrPermille: map[string]int{}, LatePermille: rate, MaxFaults: 1 + r.S.Draw(3)}
		for _, k := range []string{"os.create", "os.write", "os.fsync", "os.close", "os.rename", "os.fsyncdir", "os.remove", "os.open"} {
			r.Faults.ErrPermille[k] = rate
		}
	} else {
		r.Faults.Off = true
	}
	r.MaxSteps = 60000
	simrt.SetMode(simrt.ModeCoarse)
	r.OnStep = func() { st.checkSpec(false) }
	for wi, scripts := range wl.Writers {
		wi, scripts := wi, scripts
		simrt.GoNamed(fmt.Sprintf("fswriter%d", wi), func() { st.writer(wi, scripts, &pending[wi]) })
	}
	r.Loop(func() bool { st.mu.Lock(); defer st.mu.Unlock(); return st.fin == len(wl.Writers) }, 10*time.Second)
	if !r.Budget {
		r.FairDrain(func() bool { st.mu.Lock(); defer st.mu.Unlock(); return st.fin == len(wl.Writers) }, 5000, 5*time.Second)
	}
	if st.fin == len(wl.Writers) {
		st.checkSpec(true)
		r.NonTriv["C16"] = len(st.model) > 1
	}
	if !r.Teardown(nil) {
		r.Dirty = true
	}
}

// ---------------------------------------------------------------------------------------------
// C15: crash consistency

type fsBatch struct {
	ids     []string
	ch      chan error
	acked   bool
	err     error
	ackStep int
}

type fsCrashState struct {
	r       *Run
	store   *bs.FileSystemDataStore
	eng     *bs.BloomSearchEngine
	cfg     bs.BloomSearchEngineConfig
	mu      sync.Mutex
	batches []*fsBatch
	known   map[string]bool
	lastVer uint64
	images  int
	merging bool
	// cleanupFailed: the last Merge reported ErrPostCommitCleanup (its source removals may not
	// be durable and the caller was told so); cleared once every directory change is durable.
	cleanupFailed bool
	// committed: the running Merge's MetaStore.Update has returned — the file system store has
	// removed the sources from the directory; from here on a process crash must not show them.
	committed           bool
	removeFaultsAtMerge int
	faultsAtMerge       int
	lastCommitted       bool
	K                   int
	fin                 bool
}

// faultsNow counts every fault injected so far.
func (st *fsCrashState) faultsNow() int {
	st.r.mu.Lock()
	defer st.r.mu.Unlock()
	n := 0
	for _, v := range st.r.FaultCt {
		n += v
	}
	return n
}

// removeFaults counts the injected failures of os.Remove so far.
func (st *fsCrashState) removeFaults() int {
	st.r.mu.Lock()
	defer st.r.mu.Unlock()
	n := 0
	for k, v := range st.r.FaultCt {
		if strings.HasSuffix(k, ":os.remove") {
			n += v
		}
	}
	return n
}

// commitMarker passes every MetaStore call through to the file system store and notes when an
// Update carrying deletes (a merge commit) has returned.
type commitMarker struct {
	bs.MetaStore
	st *fsCrashState
}

func (c *commitMarker) Update(ctx context.Context, writes []bs.WriteOperation, deletes []bs.DeleteOperation) error {
	err := c.MetaStore.Update(ctx, writes, deletes)
	if len(deletes) > 0 {
		c.st.committed = true
	}
	return err
}

// recover opens a fresh store and engine over an image and returns the ids a match-all query
// yields, per file.
func (st *fsCrashState) recover(img *simos.FS) (ids map[string]int, where map[string][]string, qerr error, fileErrs []string) {
	main := simos.Current
	prev := simrt.Mode()
	simos.Current = img
	simrt.SetMode(simrt.ModeOff)
	defer func() {
		simos.Current = main
		simrt.SetMode(prev)
	}()
	store := bs.NewFileSystemDataStore(fsRoot)
	eng, err := bs.NewBloomSearchEngine(st.cfg, store, store)
	if err != nil {
		panic(err)
	}
	ids = map[string]int{}
	where = map[string][]string{}
	// Every file the store yields must be completely readable.
	metas, lerr := ListMeta(store)
	if lerr != nil {
		fileErrs = append(fileErrs, fmt.Sprintf("directory scan failed: %v", lerr))
	}
	for _, m := range metas {
		fv := ReadFileView(store, m.Ptr, true)
		if fv.Err != nil {
			fileErrs = append(fileErrs, fmt.Sprintf("%s: %v", m.Ptr, fv.Err))
			continue
		}
		for _, bv := range fv.Blocks {
			if bv.Err != nil {
				fileErrs = append(fileErrs, fmt.Sprintf("%s@%d: %v", m.Ptr, bv.Meta.RowDataOffset, bv.Err))
			}
			for _, id := range bv.IDs {
				where[id] = append(where[id], m.Ptr)
			}
		}
	}
	rows, qerr, _ := QueryAll(eng, context.Background(), nil)
	for _, row := range rows {
		ids[idOfRow(row)]++
	}
	return ids, where, qerr, fileErrs
}

func (st *fsCrashState) checkImage(kind, desc string, img *simos.FS) {
	r := st.r
	st.images++
	ids, where, qerr, fileErrs := st.recover(img)
	step := r.Step
	for _, fe := range fileErrs {
		r.Violate("C15", "unreadable-file-after-"+kind, "after a %s at step %d (%s) the recovered store yields a file that is not completely readable: %s", kind, step, desc, fe)
	}
	if qerr != nil {
		r.Violate("C15", "query-error-after-"+kind, "after a %s at step %d (%s) a match-all query on a fresh engine failed: %v", kind, step, desc, qerr)
	}
	live := simos.Current.Listing(fsRoot)
	for id, n := range ids {
		if !st.known[id] {
			r.Violate("C15", "unknown-row-after-"+kind, "after a %s at step %d (%s) the recovered store returns row %q, which was never ingested", kind, step, desc, id)
		}
		if n > 1 {
			files := where[id]
			sort.Strings(files)
			resurrected := false
			for _, f := range files {
				if _, ok := live[strings.TrimPrefix(f, fsRoot+"/")]; !ok {
					resurrected = true
				}
			}
			// While a Merge call is in flight the file system store (as MetaStore) has a commit
			// window: the output is published before the sources are (durably) removed. That is
			// known finding F7; anything else is reported under its own kind.
			k := "duplicate-rows-merge-window-" + kind
			// The window of F7 ends, for a process crash, when the merge's Update has returned
			// (the store's commit point); for a power loss it lasts until the Merge call is over
			// (the removal becomes durable with the directory fsyncs of Update / TombstoneFile).
			// (An injected failure of one of Update's removals keeps the window open: the source
			// then stays until TombstoneFile removes it, which is the same missing atomicity.)
			// For a power loss the same holds once Update has returned, provided no fault was
			// injected since the merge began: Update fsyncs the directory after its removals (a
			// swallowed fsync failure leaves them volatile until TombstoneFile's fsync).
			inWindow := st.merging && !(st.committed && ((kind == "process-crash" && st.removeFaults() == st.removeFaultsAtMerge) || st.faultsNow() == st.faultsAtMerge))
			if !inWindow && !(st.cleanupFailed && kind == "power-loss") {
				k = "duplicate-rows-" + kind
				if resurrected {
					k = "duplicate-rows-removed-file-resurrected-" + kind
				}
			}
			r.Violate("C15", k, "after a %s at step %d (%s) row %q is returned %d times (held by %v; merge in flight: %v; some holder already removed before the crash: %v)", kind, step, desc, id, n, files, st.merging, resurrected)
		}
	}
	st.mu.Lock()
	bl := append([]*fsBatch(nil), st.batches...)
	st.mu.Unlock()
	for _, b := range bl {
		if b.acked && b.err == nil && b.ackStep < step {
			for _, id := range b.ids {
				if ids[id] == 0 {
					r.Violate("C15", "acked-row-lost-after-"+kind, "after a %s at step %d (%s) row %q, acknowledged at step %d, is not returned by the recovered store (query error: %v)", kind, step, desc, id, b.ackStep, qerr)
				}
			}
		}
	}
}

// crashPoint runs at every quiescent point at which the file system changed since the last one.
func (st *fsCrashState) crashPoint() {
	r := st.r
	st.mu.Lock()
	bl := append([]*fsBatch(nil), st.batches...)
	st.mu.Unlock()
	for _, b := range bl {
		if !b.acked && len(b.ch) > 0 {
			b.err = <-b.ch
			b.acked = true
			b.ackStep = r.Step
		}
	}
	fs := simos.Current
	ver, _ := fs.Counters()
	if ver == st.lastVer && st.committed == st.lastCommitted {
		return // nothing changed on disk, and the merge has not passed its commit point either
	}
	st.lastVer, st.lastCommitted = ver, st.committed
	st.checkImage("process-crash", "volatile view", fs.VolatileImage())
	ops, dirty := fs.PendingDirOps()
	if ops == 0 {
		st.cleanupFailed = false
	}
	if ops == 0 && dirty == 0 {
		return // everything is durable: the power-loss image equals the volatile one
	}
	r.Probe("fs.powerloss-points")
	for k := 0; k < st.K; k++ {
		img, desc := fs.PowerLossImage(func(n int) int { return r.F.Draw(n) })
		st.checkImage("power-loss", desc, img)
	}
}

func runFsCrash(r *Run) {
	w := r.W
	st := &fsCrashState{r: r, known: map[string]bool{}, K: 2}
	simrt.SetMode(simrt.ModeOff)
	st.store = bs.NewFileSystemDataStore(fsRoot)
	cfg := bs.DefaultBloomSearchEngineConfig()
	cfg.MaxBufferedRows = w.Range(1, 4)
	cfg.MaxRowGroupRows = w.Range(2, 8)
	cfg.MaxBufferedTime = 300 * time.Millisecond
	cfg.IngestBufferSize = 4
	cfg.MaxFilesToMergePerOperation = w.Range(2, 4)
	cfg.RowDataCompression = compressionOf([]string{"none", "snappy", "zstd"}[w.Draw(3)])
	cfg.BloomFalsePositiveRate = 0.05
	if w.Bool() {
		cfg.PartitionFunc = partitionByP
	}
	st.cfg = cfg
	eng, err := bs.NewBloomSearchEngine(cfg, &commitMarker{MetaStore: st.store, st: st}, st.store)
	if err != nil {
		panic(err)
	}
	st.eng = eng
	eng.Start()
	type op struct {
		Kind string `json:"kind"`
		N    int    `json:"n,omitempty"`
	}
	var ops []op
	nops := w.Range(4, 12)
	for i := 0; i < nops; i++ {
		switch x := w.Draw(10); {
		case x < 6:
			ops = append(ops, op{"ingest", w.Range(1, 3)})
		case x < 8:
			ops = append(ops, op{Kind: "flush"})
		default:
			ops = append(ops, op{Kind: "merge"})
		}
	}
	ops = append(ops, op{Kind: "flush"}, op{Kind: "merge"})
	faulty := w.Draw(3) == 0
	r.Samples = append(r.Samples, map[string]any{"ops": ops, "os_faults": faulty, "max_buffered_rows": cfg.MaxBufferedRows, "partitioned": cfg.PartitionFunc != nil})
	r.SetupPolicy(false, 800)
	if faulty {
		rate := 25
		r.Faults = FaultPolicy{ErrPermille: map[string]int{}, LatePermille: rate, MaxFaults: 1 + r.S.Draw(2)}
		for _, k := range []string{"os.create", "os.write", "os.fsync", "os.close", "os.rename", "os.fsyncdir", "os.remove"} {
			r.Faults.ErrPermille[k] = rate
		}
	} else {
		r.Faults.Off = true
	}
	r.MaxSteps = 60000
	simrt.SetMode(simrt.ModeCoarse)
	r.OnStep = st.crashPoint
	simrt.GoNamed("fsclient", func() {
		nb := 0
		for oi, o := range ops {
			simrt.Gate("op", fmt.Sprintf("%s %d", o.Kind, oi), nil)
			switch o.Kind {
			case "ingest":
				b := &fsBatch{ch: make(chan error, 2)}
				var rows []map[string]any
				for k := 0; k < o.N; k++ {
					id := fmt.Sprintf("b%d-%d", nb, k)
					b.ids = append(b.ids, id)
					rows = append(rows, map[string]any{"_id": id, "p": fmt.Sprintf("p%d", k%2), "msg": "hello crash world"})
				}
				nb++
				st.mu.Lock()
				for _, id := range b.ids {
					st.known[id] = true
				}
				st.batches = append(st.batches, b)
				st.mu.Unlock()
				eng.IngestRows(context.Background(), rows, b.ch)
			case "flush":
				eng.Flush(context.Background())
			case "merge":
				st.merging, st.committed, st.removeFaultsAtMerge, st.faultsAtMerge = true, false, st.removeFaults(), st.faultsNow()
				_, err := eng.Merge(context.Background())
				st.merging = false
				if err == nil {
					r.Probe("fs.merge-ok")
				}
				if errors.Is(err, bs.ErrPostCommitCleanup) {
					// The commit window of F7 stays open: the engine reported that the
					// removal of the merged sources could not be completed.
					st.cleanupFailed = true
					r.Probe("fs.merge-post-commit-cleanup-failed")
				}
			}
		}
		st.fin = true
	})
	r.Loop(func() bool { return st.fin }, 20*time.Second)
	if !r.Budget && !st.fin {
		r.FairDrain(func() bool { return st.fin }, 20000, 20*time.Second)
	}
	st.crashPoint()
	r.ProbeN("fs.crash-images", st.images)
	r.NonTriv["C15"] = st.images > 3
	ok := r.Teardown(func() {
		cctx, cancel := context.WithCancel(context.Background())
		cancel()
		simrt.GoNamed("teardown-stop", func() { eng.Stop(cctx) })
	})
	if !ok {
		r.Dirty = true
	}
}

// ---------------------------------------------------------------------------------------------
// C14 with FileSystemDataStore as both stores

func runFsConc(r *Run) {
	w := r.W
	simrt.SetMode(simrt.ModeOff)
	store := bs.NewFileSystemDataStore(fsRoot)
	cfg := bs.DefaultBloomSearchEngineConfig()
	cfg.MaxBufferedRows = w.Range(1, 4)
	cfg.MaxRowGroupRows = w.Range(2, 10)
	cfg.MaxBufferedTime = 300 * time.Millisecond
	cfg.IngestBufferSize = 4
	cfg.MaxQueryConcurrency = w.Range(1, 4)
	cfg.MaxFilesToMergePerOperation = w.Range(2, 5)
	cfg.BloomFalsePositiveRate = 0.05
	if w.Bool() {
		cfg.PartitionFunc = partitionByP
	}
	eng, err := bs.NewBloomSearchEngine(cfg, store, store)
	if err != nil {
		panic(err)
	}
	eng.Start()
	nBatches, nMerges, nReaders, nQueries := w.Range(3, 8), w.Range(1, 4), w.Range(1, 3), w.Range(2, 5)
	r.Samples = append(r.Samples, map[string]any{"batches": nBatches, "merges": nMerges, "readers": nReaders, "queries": nQueries, "stores": "FileSystemDataStore as DataStore and MetaStore over simos"})
	r.SetupPolicy(false, 1500)
	r.Faults.Off = true
	r.MaxSteps = 80000
	simrt.SetMode(simrt.ModeCoarse)
	var mu sync.Mutex
	var batches []*concBatch
	var queries []*concQuery
	mergeWindows := [][2]int{}
	fin := 0
	total := 2 + nReaders
	simrt.GoNamed("writer0", func() {
		for bi := 0; bi < nBatches; bi++ {
			simrt.Gate("op", fmt.Sprintf("ingest %d", bi), nil)
			b := &concBatch{ch: make(chan error, 2)}
			var rows []map[string]any
			for k := 0; k < 1+bi%3; k++ {
				id := fmt.Sprintf("w-%d-%d", bi, k)
				b.ids = append(b.ids, id)
				rows = append(rows, map[string]any{"_id": id, "p": fmt.Sprintf("p%d", (bi+k)%2), "msg": "hello world"})
			}
			mu.Lock()
			batches = append(batches, b)
			mu.Unlock()
			eng.IngestRows(context.Background(), rows, b.ch)
			if bi%2 == 1 {
				eng.Flush(context.Background())
			}
		}
		mu.Lock()
		fin++
		mu.Unlock()
	})
	simrt.GoNamed("merger", func() {
		for m := 0; m < nMerges; m++ {
			simrt.Gate("op", fmt.Sprintf("merge %d", m), nil)
			s0 := r.Step
			_, err := eng.Merge(context.Background())
			mu.Lock()
			mergeWindows = append(mergeWindows, [2]int{s0, r.Step})
			mu.Unlock()
			if err == nil {
				r.Probe("fsconc.merge-ok")
			}
		}
		mu.Lock()
		fin++
		mu.Unlock()
	})
	for ri := 0; ri < nReaders; ri++ {
		ri := ri
		simrt.GoNamed(fmt.Sprintf("reader%d", ri), func() {
			for qi := 0; qi < nQueries; qi++ {
				simrt.Gate("op", fmt.Sprintf("r%d query %d", ri, qi), nil)
				cq := &concQuery{tag: fmt.Sprintf("q-r%d-%d", ri, qi)}
				mu.Lock()
				queries = append(queries, cq)
				cq.invoke = r.Step
				mu.Unlock()
				rows, qerr, _ := QueryAll(eng, context.Background(), nil)
				mu.Lock()
				for _, row := range rows {
					cq.ids = append(cq.ids, idOfRow(row))
				}
				cq.err, cq.ret, cq.done = qerr, r.Step, true
				mu.Unlock()
			}
			mu.Lock()
			fin++
			mu.Unlock()
		})
	}
	r.OnStep = func() {
		mu.Lock()
		bl := append([]*concBatch(nil), batches...)
		mu.Unlock()
		for _, b := range bl {
			if !b.acked && len(b.ch) > 0 {
				b.err = <-b.ch
				b.acked = true
				b.ackStep = r.Step
			}
		}
	}
	done := func() bool { mu.Lock(); defer mu.Unlock(); return fin == total }
	r.Loop(done, 30*time.Second)
	if !r.Budget {
		r.FairDrain(done, 20000, 20*time.Second)
	}
	if done() && !r.Budget {
		known := map[string]bool{}
		for _, b := range batches {
			for _, id := range b.ids {
				known[id] = true
			}
		}
		overlapsMerge := func(q *concQuery) bool {
			for _, mw := range mergeWindows {
				if q.invoke <= mw[1] && mw[0] <= q.ret {
					return true
				}
			}
			return false
		}
		for _, q := range queries {
			if !q.done {
				continue
			}
			seen := map[string]int{}
			for _, id := range q.ids {
				seen[id]++
				if !known[id] {
					r.Violate("C14", "unknown-row", "query %s returned row %s that was never ingested", q.tag, id)
				}
			}
			if q.err != nil {
				continue
			}
			r.NonTriv["C14"] = true
			suffix := ""
			if overlapsMerge(q) {
				suffix = "-fs-metastore-during-merge"
			}
			for id, n := range seen {
				if n > 1 {
					r.Violate("C14", "duplicate-row-in-query"+suffix, "query %s (steps %d-%d, FileSystemDataStore as MetaStore) finished with nil error but returned row %s %d times", q.tag, q.invoke, q.ret, id, n)
				}
			}
			for _, b := range batches {
				if b.acked && b.err == nil && b.ackStep < q.invoke {
					for _, id := range b.ids {
						if seen[id] == 0 {
							r.Violate("C14", "acked-row-missing-in-query"+suffix, "query %s (steps %d-%d, FileSystemDataStore as MetaStore) finished with nil error but misses row %s acknowledged at step %d", q.tag, q.invoke, q.ret, id, b.ackStep)
						}
					}
				}
			}
		}
	}
	ok := r.Teardown(func() {
		cctx, cancel := context.WithCancel(context.Background())
		cancel()
		simrt.GoNamed("teardown-stop", func() { eng.Stop(cctx) })
	})
	if !ok {
		r.Dirty = true
	}
}

func init() {
	otherScenarios["fs"] = func(r *Run, variant string) {
		switch variant {
		case "crash":
			runFsCrash(r)
		case "conc":
			runFsConc(r)
		default:
			runFsSpec(r)
		}
	}
}
