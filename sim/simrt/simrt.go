// Package simrt is the scheduler runtime of DetSim (DESIGN.md §2.4): actor identity, gates at
// which goroutines park until the controller releases them, named spawns, and the pull side of
// the runtime overlay (deterministic select order, map/rand stream, goroutine ids).
//
// It is imported by three parties: the instrumented copy of bloomsearch (Yield, Go), the
// simulated OS package simos (Gate), and the harness (everything else). It imports nothing
// from either, so there is no package cycle.
package simrt

import (
	"context"
	"runtime/debug"
	"sort"
	"sync"
	"sync/atomic"
	_ "unsafe"
)

//go:linkname SimSeed runtime.SimSeed
var SimSeed uint64

//go:linkname SimRand runtime.SimRand
var SimRand uint64

//go:linkname SimMapSeed runtime.SimMapSeed
var SimMapSeed uint64

//go:linkname SimIter runtime.SimIter
var SimIter uint64

//go:linkname SimMath runtime.SimMath
var SimMath uint64

//go:linkname SimStarve runtime.SimStarve
var SimStarve uint32

//go:linkname SimNoPreempt runtime.SimNoPreempt
var SimNoPreempt uint32

//go:linkname SimGoid runtime.SimGoid
func SimGoid() uint64

// Scheduling modes.
const (
	ModeOff    int32 = iota // gates and yields pass straight through (oracle code, teardown)
	ModeCoarse              // seam gates park, yields are no-ops
	ModeFine                // seam gates park, enabled yield sites park too
)

// Decision is what the controller hands a parked goroutine when it releases it.
type Decision struct {
	Fault int   // 0 = proceed normally; otherwise a fault code interpreted by the seam
	Arg   int64 // fault parameter (e.g. short-write length)
}

// Parked describes one goroutine parked at a gate.
type Parked struct {
	Actor string
	Kind  string // gate kind: "y" for yields, otherwise a seam-defined kind such as "ds.write"
	Site  string // where / what (unique enough to tell enabled actions apart)
	Ctx   context.Context
	Seq   uint64 // global park sequence number (diagnostics only; never used for choice)

	// Controller-owned annotations.
	StallUntil int64 // simulated unix-nano until which the controller will not release it (0 = none, -1 = forever)
	Note       int

	ch chan Decision
}

type actor struct {
	name   string
	spawns int
}

var (
	mu      sync.Mutex
	mode    atomic.Int32
	actors  = map[uint64]*actor{}
	parked  []*Parked
	alive   = map[string]bool{}
	anon    int
	ctlGoid uint64
	parkSeq uint64

	// YieldEnabled decides, in fine mode, whether a yield site parks. nil = every site.
	YieldEnabled func(site string) bool
	yieldCache   = map[string]bool{}

	// OnPanic, when set, receives panics of spawned actors (they are recovered).
	OnPanic func(actor string, v any, stack []byte)

	// Counters.
	YieldParks uint64
	GateParks  uint64
)

// BeginRun resets all per-run state. The calling goroutine becomes the controller: it never
// parks.
func BeginRun() {
	mu.Lock()
	actors = map[uint64]*actor{}
	parked = nil
	alive = map[string]bool{}
	anon = 0
	parkSeq = 0
	ctlGoid = SimGoid()
	actors[ctlGoid] = &actor{name: "ctl"}
	yieldCache = map[string]bool{}
	YieldParks = 0
	GateParks = 0
	mu.Unlock()
}

func SetMode(m int32) { mode.Store(m) }

// SetYieldEnabled installs a new yield-site filter and forgets the decisions cached under the
// previous one.
func SetYieldEnabled(fn func(site string) bool) {
	mu.Lock()
	YieldEnabled = fn
	yieldCache = map[string]bool{}
	mu.Unlock()
}
func Mode() int32 { return mode.Load() }

func curLocked() *actor {
	id := SimGoid()
	a := actors[id]
	if a == nil {
		anon++
		a = &actor{name: "anon" + itoa(anon)}
		actors[id] = a
	}
	return a
}

// Name returns the current goroutine's actor name.
func Name() string {
	mu.Lock()
	defer mu.Unlock()
	return curLocked().name
}

// IsController reports whether the caller is the run's controller goroutine.
func IsController() bool { return SimGoid() == ctlGoid }

// SpawnCount returns how many named children the current actor has spawned so far.
func SpawnCount() int {
	mu.Lock()
	defer mu.Unlock()
	return curLocked().spawns
}

func itoa(n int) string {
	if n == 0 {
		return "0"
	}
	var b [20]byte
	i := len(b)
	for n > 0 {
		i--
		b[i] = byte('0' + n%10)
		n /= 10
	}
	return string(b[i:])
}

// Go spawns fn as a child actor named "<parent>/<site>#<k>", k being the parent's own spawn
// counter, so that names do not depend on which goroutine runs first.
func Go(site string, fn func()) {
	mu.Lock()
	p := curLocked()
	name := p.name + "/" + site + "#" + itoa(p.spawns)
	p.spawns++
	alive[name] = true
	mu.Unlock()
	start(name, fn)
}

// GoNamed spawns fn as an actor with an absolute name (harness clients).
func GoNamed(name string, fn func()) {
	mu.Lock()
	alive[name] = true
	mu.Unlock()
	start(name, fn)
}

func start(name string, fn func()) {
	go func() {
		id := SimGoid()
		mu.Lock()
		actors[id] = &actor{name: name}
		mu.Unlock()
		defer func() {
			mu.Lock()
			delete(actors, id)
			delete(alive, name)
			mu.Unlock()
		}()
		defer func() {
			// A panic in a goroutine of the system under test would kill the whole worker
			// process; report it to the harness instead, which ends the run with a violation.
			if OnPanic != nil {
				if p := recover(); p != nil {
					OnPanic(name, p, debug.Stack())
				}
			}
		}()
		Yield("start")
		fn()
	}()
}

// Yield parks the current goroutine at an instrumented synchronisation site (fine mode only).
func Yield(site string) {
	if mode.Load() != ModeFine {
		return
	}
	if SimGoid() == ctlGoid {
		return
	}
	mu.Lock()
	en, ok := yieldCache[site]
	if !ok {
		en = YieldEnabled == nil || YieldEnabled(site)
		yieldCache[site] = en
	}
	mu.Unlock()
	if !en {
		return
	}
	park("y", site, nil)
}

// Gate parks the current goroutine at a seam call until the controller releases it and returns
// the controller's decision. In ModeOff, and for the controller itself, it returns at once.
func Gate(kind, site string, ctx context.Context) Decision {
	if mode.Load() == ModeOff || SimGoid() == ctlGoid {
		return Decision{}
	}
	return park(kind, site, ctx)
}

func park(kind, site string, ctx context.Context) Decision {
	mu.Lock()
	a := curLocked()
	parkSeq++
	p := &Parked{Actor: a.name, Kind: kind, Site: site, Ctx: ctx, Seq: parkSeq, ch: make(chan Decision)}
	parked = append(parked, p)
	if kind == "y" {
		YieldParks++
	} else {
		GateParks++
	}
	mu.Unlock()
	return <-p.ch
}

// ParkedList returns the parked goroutines sorted by (actor name, kind, site).
func ParkedList() []*Parked {
	mu.Lock()
	defer mu.Unlock()
	out := append([]*Parked(nil), parked...)
	sort.SliceStable(out, func(i, j int) bool {
		if out[i].Actor != out[j].Actor {
			return out[i].Actor < out[j].Actor
		}
		if out[i].Kind != out[j].Kind {
			return out[i].Kind < out[j].Kind
		}
		return out[i].Site < out[j].Site
	})
	return out
}

// Release lets p continue with decision d.
func Release(p *Parked, d Decision) {
	mu.Lock()
	for i, q := range parked {
		if q == p {
			parked = append(parked[:i], parked[i+1:]...)
			break
		}
	}
	mu.Unlock()
	p.ch <- d
}

// ReleaseAll releases every parked goroutine with a zero decision (teardown).
func ReleaseAll() int {
	n := 0
	for {
		mu.Lock()
		if len(parked) == 0 {
			mu.Unlock()
			return n
		}
		p := parked[0]
		parked = parked[1:]
		mu.Unlock()
		p.ch <- Decision{}
		n++
	}
}

// AliveNames returns the names of the named actors still running, sorted.
func AliveNames() []string {
	mu.Lock()
	defer mu.Unlock()
	out := make([]string, 0, len(alive))
	for n := range alive {
		out = append(out, n)
	}
	sort.Strings(out)
	return out
}
