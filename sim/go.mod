module verifsim

go 1.26.0

require github.com/danthegoodman1/bloomsearch v0.0.0

replace github.com/danthegoodman1/bloomsearch => /repo
